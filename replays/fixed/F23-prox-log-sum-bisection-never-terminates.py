"""Demonstration (not a replay file): prox_log_sum does not return for large alpha * stepsize.

Found by check C03 (VERIF_SEED=0, run 7968, compiled engine: the worker hung inside the
kernel and had to be killed).  Exit 1 if the call hangs, 0 if it returns.
"""
import os
import signal
import sys

os.environ['NUMBA_DISABLE_JIT'] = '1'
sys.path.insert(0, os.environ.get('VERIF_REPO', '/repo'))
from skglm.utils.prox_funcs import _find_root_by_bisection  # noqa


def on_alarm(*a):
    print("HANG: _find_root_by_bisection(67521.328, 227990250.127, 1139951250.63, 5.0) "
          "did not return within 10 s")
    os._exit(1)


signal.signal(signal.SIGALRM, on_alarm)
signal.alarm(10)
print(_find_root_by_bisection(67521.32821748161, 227990250.1267527, 1139951250.6337636, 5.0))
sys.exit(0)
