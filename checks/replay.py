#!/venv/bin/python
"""Replay a minimised violation file in a fresh interpreter.

    /venv/bin/python checks/replay.py replays/C01/<file>.json

Exit 1 and print the VIOLATION line if the recorded violation class reproduces exactly,
exit 0 if it does not (e.g. after a repair), exit 2 on harness error.
"""
import json
import os
import sys

sys.path.insert(0, os.path.dirname(os.path.dirname(os.path.abspath(__file__))))


def main():
    path = sys.argv[1]
    rp = json.load(open(path))
    if os.environ.get("PYTHONHASHSEED") != "0":
        os.environ["PYTHONHASHSEED"] = "0"
        os.execv(sys.executable, [sys.executable] + sys.argv)
    from sim import env
    env.setup(rp["engine"])
    from sim import checks_registry as R
    plan = rp["plan"]
    R.worker_init(plan["check"])
    try:
        rec = R.execute(plan["check"], plan)
    except Exception as e:
        print("HARNESS-ERROR during replay:", repr(e))
        return 2
    for v in rec["violations"]:
        if rp["property"] in v["prop"] and "|".join(str(x) for x in v["sig"]) == rp["expected_sig"]:
            from sim.util import dumps
            print("REPRODUCED", rp["expected_sig"])
            print(dumps(dict(oracle=v["oracle"], detail=v["detail"])))
            print(f"VIOLATION property={rp['property']} replay={path}")
            return 1
    print("not reproduced:", rp["expected_sig"])
    return 0


if __name__ == "__main__":
    sys.exit(main())
