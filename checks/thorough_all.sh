#!/bin/bash
# Development aid: run the thorough tier of every claimed check once, keep the summaries.
# usage: thorough_all.sh [seed] [checks]
cd /verif
SEED=${1:-0}
CHECKS=${2:-"C01 C02 C03 C04 C05 C09 C10 C11 C13 C16 C17 C18 C19 C20"}
mkdir -p .work/thorough
for c in $CHECKS; do
  VERIF_SEED=$SEED /venv/bin/python checks/run.py $c --tier thorough > .work/thorough/$c-$SEED.log 2>&1
  echo "$c seed=$SEED exit=$?" >> .work/thorough/summary.txt
done
echo THOROUGH-DONE >> .work/thorough/summary.txt
