#!/bin/bash
# Development aid: run every claimed check's quick tier for a list of seeds, keep the summaries.
# usage: soak.sh "<seeds>" [budget_s] [checks]
cd /verif
SEEDS=${1:-"1 2 3"}
BUDGET=${2:-60}
CHECKS=${3:-"C01 C02 C03 C04 C05 C09 C10 C11 C13 C16 C17 C18 C19 C20"}
mkdir -p .work/soak
for s in $SEEDS; do
  for c in $CHECKS; do
    VERIF_SEED=$s VERIF_BUDGET_S=$BUDGET /venv/bin/python checks/run.py $c --tier quick > .work/soak/$c-$s.log 2>&1
    echo "$c seed=$s exit=$?" >> .work/soak/summary.txt
  done
done
echo SOAK-DONE >> .work/soak/summary.txt
