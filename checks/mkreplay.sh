#!/bin/bash
# usage: mkreplay.sh <check> <prop> <seed> <run> <engine> '<sig>' <outfile> [entry]
# Development aid: regenerate run <run> of <check>, minimise the violation class <sig> of property <prop>.
set -e
cd /verif
export PYTHONHASHSEED=0 PYTHONPATH=/verif
tmp=$(mktemp /verif/.work/plan-XXXX.json)
if [ -n "$8" ]; then E="--entry $8"; else E=""; fi
/venv/bin/python -m sim.mkplan --engine "$5" --check "$1" --seed "$3" --run "$4" --out "$tmp" $E
mkdir -p "$(dirname "$7")"
/venv/bin/python -m sim.shrink --engine "$5" --plan "$tmp" --prop "$2" --sig "$6" --out "$7" --wall 30
rm -f "$tmp"
