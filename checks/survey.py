#!/venv/bin/python
"""Development aid: run a batch and print violation classes per property (no shrinking)."""
import collections, json, os, shutil, subprocess, sys, tempfile
sys.path.insert(0, os.path.dirname(os.path.dirname(os.path.abspath(__file__))))
from sim import driver, findings as F
from sim.util import sig_str

def main():
    check, engine, budget = sys.argv[1], sys.argv[2], float(sys.argv[3])
    seed = int(os.environ.get("VERIF_SEED", "0"))
    tier = os.environ.get("VERIF_TIER", "quick")
    wd = tempfile.mkdtemp(prefix="survey-", dir="/verif/.work")
    cmd = [sys.executable, "-m", "sim.batch", "--engine", engine, "--check", check, "--seed", str(seed),
           "--count", "1000000", "--workers", "16", "--budget", str(budget), "--out", wd, "--tier", tier]
    if engine != "twin":
        from sim import checks_registry as R
        n = R.n_entries(check)
        cmd += ["--entries", ",".join(str((seed * 16 + k) % n) for k in range(16))]
    p = subprocess.run(cmd, cwd="/verif", env=driver._env(), capture_output=True, text=True)
    print(p.stdout[-500:], p.stderr[-2000:])
    recs = driver.read_records(wd)
    fnd = F.load()
    cnt = collections.Counter(); ex = {}; oc = collections.Counter()
    for r in recs:
        if "harness_error" in r: cnt[("HARNESS", r["harness_error"][:100])] += 1; ex[("HARNESS", r["harness_error"][:100])] = (r["run"], r.get("tb", "")[-700:])
        if "inconclusive" in r: cnt[("INCONCLUSIVE",)] += 1; ex.setdefault(("INCONCLUSIVE",), (r["run"], ""))
        if "worker_died" in r: cnt[("DIED", r["worker_died"])] += 1; ex[("DIED", r["worker_died"])] = (r["run"], "")
        for k, v in (r.get("counts") or {}).items(): oc[k] += v
        for v in r.get("violations", []):
            for pr in v["prop"]:
                m = F.match(v, pr, fnd)
                key = (pr, sig_str(v["sig"]), "KNOWN:" + m["id"] if m else "")
                cnt[key] += 1
                ex.setdefault(key, (r["run"], json.dumps(v["detail"])[:300]))
    print("runs", len(recs), dict(oc))
    only = sys.argv[4] if len(sys.argv) > 4 else None
    for k, n in sorted(cnt.items(), key=lambda kv: (kv[0][0], -kv[1])):
        if only and k[0] != only and k[0] not in ("HARNESS", "INCONCLUSIVE", "DIED"): continue
        print(n, k, "e.g. run", ex[k][0], ex[k][1])
    shutil.rmtree(wd, ignore_errors=True)
main()
