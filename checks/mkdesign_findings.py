#!/usr/bin/env python3
"""Regenerates the tables of section 6 of DESIGN.md from known_findings.json (between markers)."""
import json, os, re
V = os.path.dirname(os.path.dirname(os.path.abspath(__file__)))
d = json.load(open(os.path.join(V, "known_findings.json")))["findings"]
fixed = [f for f in d if f["status"] == "fixed"]
known = [f for f in d if f["status"] == "known"]
lines = ["<!-- BEGIN GENERATED FINDINGS -->", "",
         f"### 6.1 Repaired in /repo ({len(fixed)} `fix:` commits)", "",
         "| # | property | commit | what failed on the pinned tree | replay |", "|---|---|---|---|---|"]
for f in fixed:
    what = f["what"].split(" ", 3)[3] if f["what"].startswith("fixed:") else f["what"]
    lines.append(f"| {f['id'][6:]} | {f['property']} | `{f['commit']}` | {what} | `{f.get('replay','')}` |")
classes = {}
for f in known:
    key = f["what"]
    classes.setdefault(key, []).append(f)
lines += ["", f"### 6.2 Recorded, not repaired ({len(classes)} defect classes, {len(known)} matchers)", ""]
for i, (what, fs) in enumerate(classes.items(), 1):
    lines.append(f"**K{i}.** {what}")
    lines.append("")
    lines.append("matchers: " + ", ".join(f"`{f['id']}` ({f['property']})" for f in fs))
    lines.append("")
lines.append("<!-- END GENERATED FINDINGS -->")
p = os.path.join(V, "DESIGN.md")
s = open(p).read()
block = "\n".join(lines)
if "<!-- BEGIN GENERATED FINDINGS -->" in s:
    s = re.sub(r"<!-- BEGIN GENERATED FINDINGS -->.*<!-- END GENERATED FINDINGS -->", lambda m: block, s, flags=re.S)
else:
    raise SystemExit("markers missing")
open(p, "w").write(s)
print(len(fixed), "fixed,", len(classes), "known classes")
