#!/venv/bin/python
"""Determinism self-test: one seed is one exactly repeatable execution.

For several checks and both engines the same run indices are executed in independent batches
with 1, 4 and 16 workers and under different PYTHONHASHSEED values (fresh interpreters each
time); the SHA-256 digest of every run's event log (plan-driven calls, returned arrays as raw
bytes, seam counters) must agree everywhere.

    /venv/bin/python checks/selftest_determinism.py [n_runs_per_check]

Exit 0 iff no digest differs.
"""
import json
import os
import shutil
import subprocess
import sys
import tempfile

V = os.path.dirname(os.path.dirname(os.path.abspath(__file__)))
sys.path.insert(0, V)
PY = sys.executable


def batch(engine, check, n, workers, hashseed, seed=0):
    wd = tempfile.mkdtemp(prefix="det-", dir=os.path.join(V, ".work"))
    env = dict(os.environ)
    env["PYTHONHASHSEED"] = str(hashseed)
    env["PYTHONPATH"] = V
    for k in ("OMP_NUM_THREADS", "OPENBLAS_NUM_THREADS", "MKL_NUM_THREADS"):
        env[k] = "1" if hashseed != 77 else "2"     # also vary BLAS threads once
    cmd = [PY, "-m", "sim.batch", "--engine", engine, "--check", check, "--seed", str(seed),
           "--first", "0", "--count", str(n), "--workers", str(workers), "--budget", "900",
           "--out", wd, "--run-cap", "120"]
    subprocess.run(cmd, cwd=V, env=env, capture_output=True, text=True, timeout=1800)
    out = {}
    for f in os.listdir(wd):
        if f.endswith(".jsonl"):
            for line in open(os.path.join(wd, f)):
                try:
                    d = json.loads(line)
                except ValueError:
                    continue
                if "digest" in d:
                    out[d["run"]] = (d["digest"], len(d.get("violations", [])))
    shutil.rmtree(wd, ignore_errors=True)
    return out


def main():
    n = int(sys.argv[1]) if len(sys.argv) > 1 else 120
    os.makedirs(os.path.join(V, ".work"), exist_ok=True)
    plan = [("twin", c) for c in ("C01", "C02", "C03", "C04", "C05", "C10", "C11", "C16", "C18", "C13",
                                  "C09", "C19", "C20")] + \
           [("compiled", c) for c in ("C01", "C05", "C11", "C19", "C04")]
    only = os.environ.get("VERIF_DET_ONLY")
    if only:
        plan = [(e, c) for e, c in plan if c in only.split(",")]
    bad = 0
    total = 0
    for engine, check in plan:
        nn = n if engine == "twin" else max(n // 3, 20)
        ref = batch(engine, check, nn, 16, 0)
        for workers, hs in ((1, 0), (4, 123), (16, 77)):
            other = batch(engine, check, nn, workers, hs)
            common = sorted(set(ref) & set(other))
            diff = [r for r in common if ref[r] != other[r]]
            total += len(common)
            bad += len(diff)
            print(f"{engine:9s} {check} workers={workers:2d} PYTHONHASHSEED={hs:3d}: "
                  f"{len(common)} runs compared, {len(diff)} differ {diff[:5]}", flush=True)
    print(f"determinism self-test: {total} comparisons, {bad} differences")
    return 0 if bad == 0 and total > 0 else 1


if __name__ == "__main__":
    sys.exit(main())
