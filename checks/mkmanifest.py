#!/usr/bin/env python3
"""Writes /verif/MANIFEST.json (kept as a script so that the claimed set is easy to audit)."""
import json, os
V = os.path.dirname(os.path.dirname(os.path.abspath(__file__)))
PY = "/venv/bin/python"
TECH = "deterministic simulation with fault injection: seeded search over "

CLAIMED = {
 "C01": ("exploration", "5 / C01",
   TECH + "budgets (crash points), working-set schedules, start points, extrapolation faults and restart histories; oracle = optimality certificate recomputed by an independent reference model",
   "Seeded simulation of single solves and crash/restart, parameter-change and edited-intercept restart histories of the 7 solvers the property names, on both engines; every run that claims convergence is re-certified from X, y and the returned values by a reference model that shares no code with skglm. Sampling, not proof: bounded problem sizes, finite seeds.",
   "trusted base: sim/refmodel (self-tested on every run), numpy/scipy; tolerance comparisons carry 1e-3 relative slack plus a rounding allowance (incl. the amplification by extrapolation coefficients observed at the seam)"),
 "C02": ("exploration", "5 / C02",
   TECH + "histories (budget crashes, faulty extrapolations, changed alpha) ending in a fault-free quiescent solve; oracle = objective within a tolerance-proportional margin of an independent witness optimum, plus bounded liveness",
   "Every simulated history is driven to quiescence and the converged result compared with a witness point computed by the reference model (any point with a lower objective refutes optimality, so the witness need not be exact); convex families only, including PDCD_WS quantile regression against the LP optimum (scipy HiGHS) and, in one run out of six, estimator-level histories. The input-space breadth is swarm sampling.",
   "witness optimum from the reference model's proximal-gradient solver (cross-checked against scikit-learn / celer in the self-test); margin kappa * tol * ||w - z||_1 with kappa = 1 for subdifferential criteria; a derived primal-dual bound for PDCD_WS (sim/runner.py:pd_margin)"),
 "C03": ("fault_enumeration", "5 / C03",
   "deterministic simulation with fault injection: crash-point enumeration (every budget of a grid is one stopping point of the same deterministic trajectory) under seeded schedules, start points and extrapolation faults; oracle = reference objective along prefix-ordered chains",
   "For each sampled run every stopping point of a budget grid (outer iterations x inner epochs, concentrated on the extrapolation and inner-test periods) is executed; the reference objective must not exceed the start and must be non-increasing along chains of prefix-related budgets. Runs, knobs and faults are sampled; grids are enumerated.",
   "prefix determinism of the solvers (the hidden RNG is re-seeded per grid by the simulator); reference objective; slack 1e-9 relative + rounding allowance"),
 "C04": ("fault_enumeration", "5 / C04",
   "deterministic simulation with fault injection: crash-point enumeration over budgets for constrained compositions, with extrapolation faults pushing candidates out of the feasible set; oracle = exact feasibility and finiteness of every returned vector",
   "Every stopping point of the budget grid is checked for exact feasibility (>= 0, or inside [0, C]) and finiteness, converged or not; budgets ending right after an extrapolation are part of every grid; a third of the plans tighten the constraint (smaller box, positivity switched on) between a solve and the grid, which is then restarted from the surviving, now infeasible, buffers (solver and estimator level).",
   "exact comparison, no tolerance; constrained compositions of the catalogue only; a call that performed no iteration under the fixed-point criterion returns the caller's own vector and is judged only up to tol (DESIGN 8.17)"),
 "C05": ("exploration", "5 / C05",
   TECH + "histories of solves, hyper-parameter changes (in place and by new objects), paths in any order, storage switches, budget crashes, solves killed at a seam event (F-INTERRUPT) and restarts from surviving buffers; oracles = per-operation certificate, buffer = X w + b, optimum at quiescence, bounded liveness (absolute and warm-versus-cold)",
   "History machine at solver level: after every operation the certificate for that operation's problem and the consistency of the pair of arrays the caller actually holds (also when the solver hands back another array) are checked against the reference model; the simulated client of an in-place solver goes on with its own arrays; SqrtLasso.path sweeps in any order are judged point by point; histories end with a quiescent solve compared with the witness optimum.",
   "reference model; buffer allowance eps * scale * (1e4 + 10 sqrt(#updates) + 0.25 #updates) plus the extrapolation amplification observed at the seam"),
 "C16": ("exploration", "5 / C16",
   TECH + "routes to the critical strength (cold, warm from a converged fit at small alpha, paths crossing alpha_max, crash + restart); oracle = reference alpha_max (unpenalised part optimised) -> exact zeros above / non-zero below",
   "alpha is placed at alpha_max * {1+4e-9, 1.001 .. 10, 0.9 .. 0.999} with the reference model's alpha_max; exact zeros are demanded where they are implied (gap dominating the tolerance under the subdifferential criterion, or cold start with nothing unpenalised, or cold start on exactly centred columns - also for the non-convex MCP family at any gamma), non-zero coefficients below; the library's own alpha_max helpers (five penalties, _alpha_max_group_lasso) must return the reference critical value; one run in five goes through the estimators (fit at / above alpha_max, refits just above and below on the same, mostly warm_start, object).",
   "reference alpha_max (null model fitted by least squares / BFGS); convex penalties for the gap rule"),
 "C17": ("fault_enumeration", "5 / C17",
   "deterministic simulation with fault injection: crash-point enumeration over budgets for all nine solvers with iteration counting at the seams; oracles = history length = outer iterations observed, last entry = reference objective of the returned point, prefix consistency across budgets",
   "Every stopping point of the budget grid: len(obj_out) equals the number of working-set selections (or Gram epochs) counted at the seam, the last entry equals the reference objective of the returned point, the history under budget K extends the history under budget k < K, and on a tolerance stop the returned stopping value may not understate the recomputed violation (subdifferential and fixed-point criteria) by more than a factor 2; for FISTA, which has no seam to count at, the crash points themselves bound the number of iterations performed.",
   "seams (numpy.argpartition / kernel wrappers) only count; reference objective with 1e-7 relative slack"),
}

CLAIMED.update({
 "C09": ("exploration", "5 / C09",
   TECH + "draws of the hidden generator behind the sparse power method (the simulator re-seeds numba's / numpy's generator per draw; adversarial start vectors in the interpreted twin); oracle = dense-SVD truth from the reference model",
   "For seeded sparse matrices (low rank, clustered leading singular values, tiny / huge scale, zero columns) every sparse global and group constant is evaluated under 64 (quick) or 256 (thorough) generator seeds: never above the true value, not below the second singular direction's value, median equal to the leading one. Dense constants and raw_hessian (the Cox bound on tied survival times included) are compared with the reference curvature as a deterministic by-product; a third of the plans carry zero sample weights and the accessors' input arrays are compared afterwards.",
   "dense SVD (numpy) as truth; lower bound carries a 5% slack; by-product part is evaluation, not simulation"),
 "C10": ("exploration", "5 / C10",
   TECH + "paired replicas of one estimator-level fit that differ only in the container of X (dense F / C / strided view / CSC / CSR / list / float32); oracle = outcome class and converged objective within the convexity margin",
   "The same seeded estimator and data are fitted on two storage replicas; both must solve (or the unsupported one be refused), each converged result must be stationary for the documented objective, and on convex problems the two objectives must agree within tol * ||w_a - w_b||_1 (single precision margin for float32); converged non-convex replicas must reach the same stationary point; some replica pairs use structured designs with exactly zero column sums; on convex problems a replica that converges quickly while the other exhausts the same ample budget far from stationarity is a violation.",
   "reference objective; trajectories are never compared step by step"),
 "C11": ("exploration", "5 / C11",
   TECH + "estimator-level histories (construct with drawn arguments, fit, set_params, refit with and without warm start, path); oracle = certificate and witness optimum for the objective written in the estimator's documentation, with the current get_params()",
   "All eleven documented estimators plus GeneralizedLinearEstimator compositions; after every fit that reports convergence the coefficients must be stationary (optimal when convex) for the documented objective built by the reference model from the constructor arguments; LinearSVC primal image, also through GeneralizedLinearEstimator with AndersonCD and FISTA; group formats through an independent reading of the documented group specification.",
   "sklearn's removed BaseEstimator._validate_data is stubbed (two check_array calls); reference model"),
 "C13": ("exploration", "5 / C13",
   "deterministic simulation with fault injection: supervised execution (worker death, hang and wall-cap detection) of the solver x datafit x penalty x storage x intercept x strategy matrix under three scheduler draws per cell; stratified enumeration of the cells, seeded data and knobs",
   "19152 cells x 3 scheduler draws (default knobs; tiny budget; warm start with p0 = 1). Outcome must be an explanatory refusal or a finite solve meeting the certificate; typing / index / arithmetic errors, non-finite values, hangs and worker deaths are violations keyed by cell. Cells solved by FISTA / PDCD_WS (whose stopping value is no certificate of the returned point) are held to the witness-optimum margin instead. The quick tier visits a seed-rotated part of the compiled matrix and a twin pass; the thorough tier the whole matrix.",
   "refusal strata are validated on the uncompiled objects first (validation only inspects attribute names); compiled engine for typing errors"),
 "C18": ("exploration", "5 / C18",
   TECH + "histories of 2-10 fits / paths over several datasets (often of the same shape) and estimators sharing datafit / penalty classes, user-held solver objects reused after solver.path(), fits killed part-way at a seam event (F-INTERRUPT), jitclass-cache clearing / pollution, float32 and float64 interleaved; oracles = byte hashes of every input before / after, bitwise equality of the last fit with the same fit executed alone in a pristine forked interpreter (RNG seam pinned)",
   "State that can leak between fits (lru_cache of jitclasses, compiled instances rewritten by path(), estimator attributes, hidden RNG) is exercised by seeded histories; the final fit is compared bit for bit with a pristine-process fit; inputs and the scalar hyper-parameters of user-held solver objects are snapshotted around every operation; refits must succeed, also after an interrupted fit. A fifth of the twin histories are solver-level: one solver object of any kind solves problem A under a small budget, then problem B (new array, written into the array A lived in, or rescaled in place; in half of the draws with the same datafit / penalty objects and run_checks=False) and must return bit for bit what a fresh solver returns.",
   "bitwise equality is only demanded within one engine with the RNG seam pinned; the pristine state is a fork taken before the worker compiled or fitted anything"),
 "C19": ("exploration", "5 / C19",
   TECH + "degenerate structure injected as a static data fault (zero column / group, duplicated or constant column, zero or constant target, one feature, n < p, 1e+-6 and 1e+-9 column scale with the regularisation chosen relative to the remaining columns) into seeded solves, warm starts and restarts of every catalogue family; oracles = finite, certificate, exact zero on null columns, no crash, no hang",
   "Every run carries a degenerate-data fault; the degenerate coordinate's fate depends on the schedule (working set, warm-start mass, extrapolation). Hangs inside compiled kernels are detected by an external wall cap and reported as violations; coordinate-descent solvers must converge within a bounded budget under column scaling and from warm starts that put mass on the degenerate column (compared with a cold start of the same problem).",
   "zero coefficients on null columns are demanded where leaving them non-zero breaks stationarity by more than tol"),
 "C20": ("exploration", "5 / C20",
   "deterministic simulation with fault injection: the same seeded plans replayed by the compiled engine, by the compiled engine with NUMBA_BOUNDSCHECK=1 and (natively bounds-checked) by the interpreted twin; oracle = no IndexError / broadcasting error, same outcome class, same converged objective",
   "Shapes that move the last feature / group / sample to array ends (intercept on / off, working set = all features, one group, empty or full last CSC column, mis-sized start vectors that must be refused); the twin phase visits every catalogue entry in every batch; a quarter of the Cox plans have no observed event. Trajectories are not compared bit for bit (see DESIGN section 8): a bounds-checked build rounds differently and the solvers branch on rounding-level quantities.",
   "numba's NUMBA_BOUNDSCHECK switch (not a source hook); negative-index wrap-around is not visible to bounds checking"),
})

NOT_APPLICABLE = {
 "C06": "pure functions of their arguments (loss formulas and derivatives): no schedule, stopping point, history or fault to simulate; needs input-space testing or proof. The reference model re-derives them, so errors that move a simulated run surface under C01/C02/C03.",
 "C07": "pure functions (proximal operators): decided by searching the input space, not by simulation.",
 "C08": "pure functions (subdifferential distance): decided by searching the input space, not by simulation.",
 "C12": "predict / decision_function / predict_proba and the one-vs-rest assembly are pure functions of the fitted arrays (OneVsRestClassifier runs sequentially): nothing to schedule or inject.",
 "C14": "metamorphic relation between two converged pure computations; no schedule, history or fault in its statement.",
 "C15": "metamorphic relation between two converged pure computations; no schedule, history or fault in its statement.",
}


def main():
    extra = json.load(open(os.path.join(V, "checks", "manifest_extra.json"))) \
        if os.path.exists(os.path.join(V, "checks", "manifest_extra.json")) else {}
    checks = []
    claimed = dict(CLAIMED)
    for pid, (level, ref, tech, text, note) in sorted(claimed.items()):
        checks.append(dict(
            property_id=pid,
            quick_cmd=f"{PY} checks/run.py {pid} --tier quick",
            thorough_cmd=f"{PY} checks/run.py {pid} --tier thorough",
            evidence_file=f"/verif/evidence/{pid}.json",
            replay_cmd_template=f"{PY} checks/replay.py {{path}}",
            engine="skglm-sim",
            level_claimed=dict(category=level, text=text, design_ref="DESIGN.md section " + ref),
            level_note=note, technique=tech))
    na = [dict(property_id=k, reason=v) for k, v in sorted(NOT_APPLICABLE.items())]
    for k, v in extra.get("not_applicable", {}).items():
        na.append(dict(property_id=k, reason=v))
    m = dict(
        version=1,
        setup_cmd=f"{PY} -m sim.refmodel.selftest && {PY} checks/setup_check.py",
        hooks=dict(guard="SKGLM_VERIF",
                   enable="no source hook exists: checks import skglm from /repo's working tree and interpose at module-level seams (numpy.argpartition, numpy.linalg.solve, kernel globals); SKGLM_VERIF=1 is exported for completeness",
                   baseline_off_cmd="cd /repo && /venv/bin/python -m pytest -ra -q -p no:cacheprovider --timeout=900 --continue-on-collection-errors --junitxml=/tmp/skglm-baseline.junit.xml",
                   source_commits=[], add_only=True),
        engines=[dict(name="skglm-sim", path="/verif/sim",
                      serves_properties=sorted(claimed),
                      kind_free_text="seeded deterministic simulator: session/history machine over the real skglm solvers (compiled numba engine and interpreted twin), seams for working-set order, extrapolation outcome, RNG and kernel boundaries, independent reference model, ddmin shrinker, fresh-process replay")],
        checks=checks,
        notes="Exit codes: 0 held / known findings only, 1 VIOLATION, 2 harness error or inconclusive. Known findings: /verif/known_findings.json. See DESIGN.md.",
        not_applicable=sorted(na, key=lambda d: d["property_id"]),
    )
    with open(os.path.join(V, "MANIFEST.json"), "w") as f:
        json.dump(m, f, indent=1)
    print("claimed", sorted(claimed), "n/a", [d["property_id"] for d in m["not_applicable"]])


if __name__ == "__main__":
    main()
