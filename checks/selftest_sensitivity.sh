#!/bin/bash
# Sensitivity self-test: every mutant under selftest/mutants (and every kept seeded change under
# seeded/*/patch.diff) is applied to a scratch copy of the repository's package; the quick tier
# of the checks named next to it must then report an unlisted VIOLATION (exit 1).
# usage: selftest_sensitivity.sh [pattern] [budget_s]
cd /verif
PAT=${1:-""}
BUDGET=${2:-45}
fail=0
for d in selftest/mutants/*$PAT*.diff seeded/*$PAT*/patch.diff; do
  [ -f "$d" ] || continue
  if [[ "$d" == seeded/* ]]; then
    name=$(basename $(dirname $d)); checks=$(cat $(dirname $d)/checks 2>/dev/null)
  else
    name=$(basename $d .diff); checks=$(cat selftest/mutants/$name.checks)
  fi
  if [ -z "$checks" ]; then echo "MUTANT $name: recorded as not caught within a quick batch (see seeded/$name/meta.json)"; continue; fi
  scratch=$(mktemp -d /tmp/verif-sens-XXXXXX)
  cp -r /repo/skglm $scratch/
  if ! (cd $scratch && patch -p1 -s < /verif/$d); then echo "MUTANT $name: patch does not apply"; rm -rf $scratch; fail=1; continue; fi
  for c in $checks; do
    out=$(VERIF_OUT=$scratch/out VERIF_REPO=$scratch VERIF_BUDGET_S=$BUDGET VERIF_SEED=${VERIF_SEED:-0} /venv/bin/python checks/run.py $c --tier quick 2>&1)
    code=$?
    if [ $code -eq 1 ]; then
      echo "MUTANT $name: caught by $c  ($(echo "$out" | grep -A1 '^VIOLATION' | grep class | head -2 | tr '\n' ';'))"
    else
      echo "MUTANT $name: NOT caught by $c (exit $code)"; fail=1
    fi
  done
  rm -rf $scratch
done
exit $fail
