#!/venv/bin/python
"""Entry point of every registered check.

    /venv/bin/python checks/run.py C01 --tier quick

Honours VERIF_SEED, VERIF_TIER, VERIF_WORKERS, VERIF_BUDGET_S, VERIF_REPO.
"""
import argparse
import os
import sys

sys.path.insert(0, os.path.dirname(os.path.dirname(os.path.abspath(__file__))))


def main():
    ap = argparse.ArgumentParser()
    ap.add_argument("check")
    ap.add_argument("--tier", default=os.environ.get("VERIF_TIER", "quick"))
    args = ap.parse_args()
    if args.tier not in ("quick", "thorough"):
        args.tier = "quick"
    from sim import driver, checks_registry
    return driver.run_check(args.check, args.tier, checks_registry)


if __name__ == "__main__":
    sys.exit(main())
