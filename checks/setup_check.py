#!/venv/bin/python
"""setup_cmd helper: import check of both engines (builds nothing persistent)."""
import os, subprocess, sys
V = os.path.dirname(os.path.dirname(os.path.abspath(__file__)))
code = "import sys; sys.path.insert(0, %r); from sim import env; env.setup(sys.argv[1]); from sim import checks_registry as R; R.warm('C01'); print('engine', sys.argv[1], 'ok')" % V
for eng in ("twin", "compiled"):
    r = subprocess.run([sys.executable, "-c", code, eng], cwd=V)
    if r.returncode != 0:
        sys.exit(2)
os.makedirs(os.path.join(V, ".work"), exist_ok=True)
print("setup ok")
