"""Check orchestrator: runs the engine batches, classifies what came back, minimises and
replays violations, prints the interface lines and writes the evidence file.

Exit status: 0 held on everything explored (known findings listed), 1 at least one VIOLATION
line, 2 harness error / inconclusive.
"""
import glob
import json
import os
import shutil
import subprocess
import sys
import tempfile
import time

from . import findings as F
from .util import dumps, sig_str

VERIF = os.path.dirname(os.path.dirname(os.path.abspath(__file__)))
# evidence/ and replays/ are written under VERIF_OUT (default: /verif itself); the self-tests that
# run the checks against a mutated scratch tree point it elsewhere
OUT = os.environ.get("VERIF_OUT", VERIF)
PY = sys.executable

LEVELS = {"C03": "fault_enumeration", "C04": "fault_enumeration", "C17": "fault_enumeration"}

_CFG = {"text": None}     # how the batch was run (a description, written into the evidence)

RULES = {
    "default": ("one evaluation = one simulated run (a seeded history of solver calls with its "
                "faults) executed against the real skglm source; distinct = distinct tuples "
                "(solver, datafit, penalty variant, storage, event signature), the event "
                "signature being the first 8 solver calls' (working-set sizes, kernel epochs "
                "capped at 99, extrapolation outcomes, outcome class); non-trivial = more than "
                "one kernel epoch or outer iteration was executed under the seams"),
}


def _env():
    e = dict(os.environ)
    e["PYTHONHASHSEED"] = "0"
    e["PYTHONPATH"] = VERIF + (":" + e["PYTHONPATH"] if e.get("PYTHONPATH") else "")
    for k in ("OMP_NUM_THREADS", "OPENBLAS_NUM_THREADS", "MKL_NUM_THREADS", "NUMBA_NUM_THREADS"):
        e[k] = "1"
    return e


def read_records(workdir):
    recs = []
    for path in sorted(glob.glob(os.path.join(workdir, "*.jsonl"))):
        engine = os.path.basename(path).split(".")[0]
        with open(path) as f:
            for line in f:
                try:
                    d = json.loads(line)
                except ValueError:
                    continue
                if "run" in d:
                    d["_engine"] = engine
                    recs.append(d)
    return recs


def run_check(check, tier, registry):
    t0 = time.time()
    seed = int(os.environ.get("VERIF_SEED", "0"))
    workers = int(os.environ.get("VERIF_WORKERS", str(os.cpu_count() or 16)))
    os.environ["VERIF_SHARDS"] = str(workers)     # (C13's cell walk strides by the number of shards)
    spec = registry.TIERS[tier]
    cspec = getattr(registry, "CHECK_TIERS", {}).get(check, {}).get(tier, {})
    budget = float(os.environ.get("VERIF_BUDGET_S", cspec.get("budget_s", spec["budget_s"])))
    phases = cspec.get("phases", spec["phases"])
    _CFG["text"] = (f"workers={workers} cores={len(os.sched_getaffinity(0))} budget_s={budget:.0f} phases="
                    + ",".join(f"{e}:{sh:g}" for e, sh in phases))
    os.makedirs(os.path.join(VERIF, ".work"), exist_ok=True)
    workdir = tempfile.mkdtemp(prefix=f"{check}-{tier}-", dir=os.path.join(VERIF, ".work"))
    env = _env()
    print(f"[{check}] tier={tier} VERIF_SEED={seed} workers={workers} budget={budget:.0f}s "
          f"repo={os.environ.get('VERIF_REPO', '/repo')}", flush=True)
    # reference-model self-test runs alongside the first batch
    st = subprocess.Popen([PY, "-m", "sim.refmodel.selftest"], cwd=VERIF, env=env,
                          stdout=subprocess.PIPE, stderr=subprocess.STDOUT, text=True)
    harness_notes = []
    n_entries = registry.n_entries(check)
    for engine, share in phases:
        b = budget * share
        cmd = [PY, "-m", "sim.batch", "--engine", engine, "--check", check, "--seed", str(seed),
               "--first", "0", "--count", str(cspec.get("count", spec["count"])),
               "--workers", str(workers), "--budget", f"{b:.1f}", "--out", workdir, "--tier", tier,
               "--run-cap", str(cspec.get("run_cap", spec.get("run_cap", 60)))]
        if engine != "twin" and n_entries:
            # shard compiled workers by composition; rotate with the seed
            ents = [str((seed * workers + k) % n_entries) for k in range(workers)]
            if workers < n_entries <= 2 * workers and check != "C13" and \
                    int(os.environ.get("VERIF_ENTRIES_PER_WORKER", "2" if tier == "thorough" else "1")) >= 2:
                # more catalogue entries than workers: in the thorough tier (where the budget
                # amortises the doubled JIT cost) every worker alternates between two, so that
                # one batch executes every composition of the catalogue in this engine.  At the
                # quick budget a worker is compile-bound already with one entry (measured: 150
                # instead of 3 000 compiled grid runs with two); there the window of entries
                # rotates with the seed and the twin phase covers the whole catalogue.
                ents = [f"{(seed * workers + k) % n_entries}+{(seed * workers + k + workers) % n_entries}"
                        for k in range(workers)]
            cmd += ["--entries", ",".join(ents)]
        try:
            p = subprocess.run(cmd, cwd=VERIF, env=env, capture_output=True, text=True,
                               timeout=b + 240)
            if p.returncode != 0:
                harness_notes.append(f"batch {engine} exit {p.returncode}: {p.stderr[-800:]}")
        except subprocess.TimeoutExpired:
            harness_notes.append(f"batch {engine} exceeded its wall cap")
    try:
        st_out, _ = st.communicate(timeout=300)
    except subprocess.TimeoutExpired:
        st.kill()
        st_out = "selftest timeout"
    if st.returncode != 0:
        harness_notes.append("reference-model self-test failed: " + (st_out or "")[-600:])
    recs = read_records(workdir)
    result = summarise(check, tier, seed, recs, harness_notes, workdir, t0, registry)
    if os.environ.get("VERIF_KEEP_WORK") != "1":     # (debugging aid: keep the raw run records)
        shutil.rmtree(workdir, ignore_errors=True)
    return result


def summarise(check, tier, seed, recs, harness_notes, workdir, t0, registry):
    findings = F.load()
    env = _env()
    n_runs = len(recs)
    harness = [r for r in recs if "harness_error" in r]
    inconclusive = [r for r in recs if "inconclusive" in r]
    died = [r for r in recs if "worker_died" in r]
    good = [r for r in recs if "digest" in r]
    by_engine = {}
    fired, probes, logical, counts = {}, {}, {}, {}
    distinct = set()
    seam_missing = set()
    for r in good:
        by_engine[r["_engine"]] = by_engine.get(r["_engine"], 0) + 1
        for d, src in ((fired, r.get("fired")), (probes, r.get("probes")),
                       (logical, r.get("logical")), (counts, r.get("counts"))):
            for k, v in (src or {}).items():
                d[k] = d.get(k, 0) + v
        if r.get("distinct_key") is not None:
            distinct.add(json.dumps(r["distinct_key"]))
        seam_missing.update(r.get("seam_missing") or [])
    cells = {}
    for r in good:
        if r.get("cell"):
            key = json.dumps(r["cell"])
            oc = (r.get("outcomes") or [None])[0]
            cells.setdefault(key, set()).add(oc)
    # ---- violations of this property
    mine = []
    for r in good:
        for v in r.get("violations", []):
            if check in v["prop"]:
                v["_engine"] = r["_engine"]
                v["_run"] = r["run"]
                mine.append(v)
    # a worker death is an outcome for the properties that speak about it
    death_viol = []
    hung = [r for r in recs if r.get("hang")]
    if check in ("C13", "C20", "C19"):
        for r in hung:
            death_viol.append(dict(prop=[check], oracle="worker_hung", sig=["worker_hung"],
                                   detail=dict(note="run exceeded its wall cap inside a kernel and was killed"),
                                   feat=dict(hang=True), _engine=r["_engine"], _run=r["run"]))
        for r in died:
            death_viol.append(dict(prop=[check], oracle="worker_died", sig=["worker_died"],
                                   detail=dict(code=r["worker_died"]), feat=dict(code=r["worker_died"]),
                                   _engine=r["_engine"], _run=r["run"]))
    elif died:
        harness_notes.append(f"{len(died)} worker deaths (runs {[r['run'] for r in died][:5]})")
    if check == "C20":
        mine.extend(compare_engines(recs, "compiled", "bounds"))
    groups = {}
    for v in mine + death_viol:
        groups.setdefault((v["_engine"], sig_str(v["sig"])), []).append(v)
    known_lines, unlisted = {}, []
    for (engine, sig), vs in sorted(groups.items()):
        un = [v for v in vs if F.match(v, check, findings) is None]
        for v in vs:
            f = F.match(v, check, findings)
            if f is not None:
                known_lines.setdefault(f["id"], [f, 0])
                known_lines[f["id"]][1] += 1
        if un:
            un.sort(key=lambda v: v["_run"])
            unlisted.append((engine, sig, un))
    for fid, (f, n) in sorted(known_lines.items()):
        print(f"KNOWN-FINDING: property={check} {fid}: {f['what']} (matched {n} time(s) this run)")
    # ---- minimise + replay the unlisted ones (bounded number of classes)
    violation_paths = []
    replay_failures = []
    unreproduced = []
    os.makedirs(os.path.join(OUT, "replays", check), exist_ok=True)
    for engine, sig, vs in unlisted[:6]:
        v = vs[0]
        run = v["_run"]
        plan_path = os.path.join(workdir, f"plan-{engine}-{run}.json")
        gen = subprocess.run([PY, "-m", "sim.mkplan", "--engine", engine, "--check", check,
                              "--seed", str(seed), "--run", str(run), "--tier", tier,
                              "--out", plan_path] + _entry_args(v, recs, engine, run),
                             cwd=VERIF, env=env, capture_output=True, text=True)
        if gen.returncode != 0:
            replay_failures.append(f"mkplan failed for run {run}: {gen.stderr[-400:]}")
            continue
        out_path = os.path.join(OUT, "replays", check, f"{seed}-{run}-{engine}.json")
        sh = subprocess.run([PY, "-m", "sim.shrink", "--engine", engine, "--plan", plan_path,
                             "--prop", check, "--sig", sig, "--out", out_path, "--wall", "40"],
                            cwd=VERIF, env=env, capture_output=True, text=True, timeout=600)
        if sh.returncode != 0:
            msg = f"run {run} ({sig}) did not reproduce in the shrinker: {(sh.stdout + sh.stderr)[-400:]}"
            if len(vs) <= 2 and "does not reproduce" in (sh.stdout + sh.stderr):
                # an isolated observation that a fresh process cannot reproduce from the same seed
                # (seen once in ~10^6 runs, under heavy machine load): it is neither reported as a
                # VIOLATION - nothing is, unless its replay file reproduces - nor allowed to turn
                # the whole batch into a harness failure; it is recorded in the evidence
                unreproduced.append(msg[:300])
            else:
                replay_failures.append(msg)
            continue
        rp = subprocess.run([PY, os.path.join(VERIF, "checks", "replay.py"), out_path],
                            cwd=VERIF, env=env, capture_output=True, text=True, timeout=600)
        if rp.returncode == 1:
            violation_paths.append((sig, out_path, len(vs)))
        else:
            replay_failures.append(f"replay of {out_path} did not reproduce (exit {rp.returncode})")
    for engine, sig, vs in unlisted[6:]:
        # further classes are reported without minimisation: the first six already fail the check
        violation_paths.append((sig, f"(not minimised; seed={seed} run={vs[0]['_run']} engine={engine})",
                                len(vs)))
    for sig, path, n in violation_paths:
        print(f"VIOLATION property={check} replay={path}")
        print(f"  class: {sig}  occurrences: {n}")
    if replay_failures:
        harness_notes.extend(replay_failures)
    # ---- evidence
    wall = time.time() - t0
    samples = registry.samples(check, seed, tier)
    evaluations = len(good)
    # a wall-cap hit in the interpreted twin is a speed limit of plain Python (pure-Python sparse
    # kernels), reported but not held against the run; in the compiled engines it matters
    inc_compiled = [r for r in inconclusive if r.get("_engine") != "twin"]
    n_compiled = sum(1 for r in recs if r.get("_engine") != "twin")
    inconcl_frac = (len(inc_compiled) / max(1, n_compiled))
    coverage = dict(
        evaluations=int(evaluations),
        distinct_nontrivial=int(len(distinct)),
        rule=registry.rule(check),
        samples=samples,
        run_config=_CFG["text"],
        runs_per_hour=int(evaluations / max(wall, 1e-9) * 3600),
        runs_by_engine=by_engine,
        logical_time=logical,
        outcome_counts=counts,
        fault_kinds_fired=fired,
        probes=probes,
        stopping_points=int(counts.get("stops", 0)),
        # runs that produced no verdict, listed run by run (seed + run index + engine regenerate
        # each with sim.mkplan).  They are not part of `evaluations` and are not a measure of the
        # work done: a wall-cap hit depends on the load of the machine, so the lists are
        # descriptive, and the exit status (2 above 10 % of the compiled runs) is what judges them
        runs_without_verdict=dict(
            wall_cap=[dict(run=r["run"], engine=r["_engine"], why=r["inconclusive"])
                      for r in inconclusive],
            worker_died=[dict(run=r["run"], engine=r["_engine"], code=r["worker_died"])
                         for r in died],
            harness_error=[dict(run=r["run"], engine=r["_engine"], error=str(r["harness_error"])[:200])
                           for r in harness]),
        seam_missing=sorted(seam_missing),
        known_findings_matched={k: n for k, (f, n) in known_lines.items()},
        engine_pairs_compared=getattr(compare_engines, "pairs", 0) if check == "C20" else None,
        unlisted_violation_classes=[s for s, _, _ in violation_paths],
        unreproduced_observations=unreproduced,
        matrix_cells=(dict(total=19152, visited=len(cells),
                           solved=sum(1 for v in cells.values() if "solved" in v),
                           refused=sum(1 for v in cells.values() if "refused" in v),
                           crashed=sum(1 for v in cells.values() if "crashed" in v))
                      if cells else None),
        simulated_time=dict(unit="kernel epochs / outer iterations / operations (logical time; the "
                                 "library has no clock)", **logical),
        real_code=["all of skglm (solvers, datafits, penalties, estimators, utils) from "
                   + os.environ.get("VERIF_REPO", "/repo")],
        stubs=["sklearn.base.BaseEstimator._validate_data (removed in scikit-learn 1.9; two "
               "check_array calls)", "numba bool_ rebound to numpy bool_ in the interpreted twin"],
        exhaustive=False,
    )
    assumptions = registry.assumptions(check)
    ev = dict(property_id=check, tier=tier, seed=seed, level=LEVELS.get(check, "exploration"),
              coverage=coverage, assumptions=assumptions, wall_s=round(wall, 2),
              violations=len(violation_paths))
    os.makedirs(os.path.join(OUT, "evidence"), exist_ok=True)
    with open(os.path.join(OUT, "evidence", f"{check}.json"), "w") as f:
        f.write(dumps(ev, indent=1))
    print(f"[{check}] runs={evaluations} ({by_engine}) distinct={len(distinct)} "
          f"stops={counts.get('stops', 0)} inconclusive={len(inconclusive)} died={len(died)} "
          f"harness_errors={len(harness)} wall={wall:.0f}s", flush=True)
    if violation_paths:
        return 1
    for r in harness[:5]:
        print("HARNESS-ERROR:", r.get("harness_error"), (r.get("tb") or "")[-600:])
    for n in unreproduced:
        print("NOTE (not a violation, recorded in the evidence):", n)
    for n in harness_notes:
        print("HARNESS-NOTE:", n)
    if harness or harness_notes:
        return 2
    if evaluations == 0 or inconcl_frac > 0.10 or len(distinct) < 2:
        print(f"HARNESS-NOTE: inconclusive (evaluations={evaluations}, "
              f"inconclusive fraction={inconcl_frac:.3f})")
        return 2
    return 0


def compare_engines(recs, a, b):
    """C20: the same seeds executed with and without array bounds checking must agree."""
    import numpy as np
    by = {}
    for r in recs:
        if "digest" in r and r.get("final") is not None:
            by.setdefault(r["run"], {})[r["_engine"]] = r
    out = []
    n_pairs = 0
    for run, d in sorted(by.items()):
        if a not in d or b not in d:
            continue
        n_pairs += 1
        fa, fb = d[a]["final"], d[b]["final"]
        fam = d[a].get("fam") or ["?", "?", "?"]
        bad = None

        def num(v):
            return float(v) if not isinstance(v, str) else float(v)
        if len(fa) != len(fb):
            bad = "different number of results"
        else:
            for x, y in zip(fa, fb):
                # trajectories are not compared step by step: a bounds-checked build rounds
                # differently and the solvers branch on rounding-level quantities; what must
                # agree is the outcome class and, where both claim convergence on a convex
                # problem under the subdifferential criterion, the objective value
                if x.get("outcome") != y.get("outcome"):
                    bad = f"outcome differs: {x.get('outcome')}/{x.get('exc')} vs {y.get('outcome')}/{y.get('exc')}"
                    break
                if x.get("outcome") != "solved":
                    continue
                if x.get("claimed") and y.get("claimed") and x.get("exact") and y.get("exact") \
                        and x.get("P") is not None and y.get("P") is not None:
                    wa = np.array([num(v) for v in x["w"]])
                    wb = np.array([num(v) for v in y["w"]])
                    Pa, Pb = num(x["P"]), num(y["P"])
                    if wa.shape != wb.shape:
                        bad = "shapes differ"
                        break
                    margin = x["tol"] * float(np.sum(np.abs(wa - wb))) * 1.001 + 1e-9 * (1 + abs(Pa))
                    if np.isfinite(Pa) and np.isfinite(Pb) and abs(Pa - Pb) > margin:
                        bad = f"converged objectives differ: {Pa} vs {Pb} (margin {margin})"
                        break
        if bad:
            out.append(dict(prop=["C20"], oracle="bounds_replay", sig=fam + ["bounds_replay_differs"],
                            detail=dict(what=bad), feat=dict(solver=fam[0], datafit=fam[1], penalty=fam[2],
                                                             what=bad), _engine=b, _run=run))
    compare_engines.pairs = n_pairs
    return out


def _entry_args(v, recs, engine, run):
    for r in recs:
        if r.get("run") == run and r["_engine"] == engine and r.get("forced_entry") is not None:
            return ["--entry", str(r["forced_entry"])]
    return []
