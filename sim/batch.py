"""Engine process: runs a batch of simulated runs of one check in one engine under
supervised, forked worker processes.

    python -m sim.batch --engine twin --check C01 --seed 0 --first 0 --count 2000 \
        --workers 16 --budget 90 --out DIR [--entries 3,7] [--tier quick]

Each worker owns the strided run indices  first + k, first + k + W, ...  and appends one
JSON line per run to DIR/<engine>.<k>.jsonl, preceded by a START line, so that a worker that
dies (signal, non-zero exit) is attributed to the run it was executing.  A run that exceeds
its wall cap is recorded as inconclusive.  Nothing here decides pass / fail.
"""
import argparse
import faulthandler
import json
import os
import signal
import sys
import time
import traceback


from .runcap import RunTimeout
from . import runcap


def execute_one(check, seed, run, engine, tier, entry=None):
    from . import checks_registry as R
    plan = R.make_plan(check, seed, run, engine, tier, entry)
    rec = R.execute(check, plan)
    return plan, rec


def worker_main(k, args, runs, entry, beat=None):
    from .util import dumps
    path = os.path.join(args.out, f"{args.engine}.{k}.jsonl")
    faulthandler.enable(open(os.path.join(args.out, f"{args.engine}.{k}.fault"), "w"))
    runcap.install()
    from . import checks_registry as R
    R.worker_init(args.check)
    t_end = args.t0 + args.budget
    n_done = 0
    with open(path, "a") as f:
        for run in runs:
            if time.time() > t_end:
                break
            f.write(dumps(dict(START=run)) + "\n")
            f.flush()
            t = time.time()
            # the first runs of a worker pay for JIT compilation: give them a longer cap
            n_warm = 3 * (len(entry) if isinstance(entry, list) else 1)
            cap = args.run_cap * (4 if n_done < n_warm and args.engine != "twin" else 1)
            n_done += 1
            if beat is not None:
                beat[2 * k], beat[2 * k + 1] = float(run), t + (cap - args.run_cap)
            if args.engine != "twin":
                def _leave(run=run, t=t):
                    f.write(dumps(dict(run=run, inconclusive="timeout", wall=time.time() - t)) + "\n")
                    f.flush()
                    if beat is not None:
                        beat[2 * k + 1] = 0.0
                    os._exit(3)
                runcap.state["on_hit"] = _leave
            try:
                runcap.arm(int(cap))
                # a worker may own several catalogue entries: it alternates between them
                # (a pure function of the run index: replays and respawned workers agree)
                ent = entry[((run - args.first) // max(1, args.workers)) % len(entry)] \
                    if isinstance(entry, list) else entry
                plan, rec = execute_one(args.check, args.seed, run, args.engine, args.tier, ent)
                runcap.disarm()
                if runcap.state["hit"]:
                    # the cap was hit but the exception was absorbed on the way (see runcap):
                    # whatever the run recorded after that is not a verdict
                    raise RunTimeout()
                rec["run"] = run
                rec["forced_entry"] = plan.get("forced_entry")
                for v in rec.get("violations", []):
                    v["run"] = run
                out = rec
            except RunTimeout:
                runcap.disarm()
                out = dict(run=run, inconclusive="timeout", wall=time.time() - t)
            except Exception as e:   # an exception escaping run_plan is a harness error
                runcap.disarm()
                if runcap.state["hit"]:
                    out = dict(run=run, inconclusive="timeout", wall=time.time() - t)
                else:
                    out = dict(run=run, harness_error=repr(e), tb=traceback.format_exc()[-2000:],
                               wall=time.time() - t)
            finally:
                runcap.disarm()
            f.write(dumps(out) + "\n")
            f.flush()
        f.write(dumps(dict(DONE=k)) + "\n")
    if beat is not None:
        beat[2 * k + 1] = 0.0
    os._exit(0)


def last_started(path):
    started, finished = None, set()
    done = False
    if not os.path.exists(path):
        return None, finished, done
    with open(path) as f:
        for line in f:
            try:
                d = json.loads(line)
            except ValueError:
                continue
            if "START" in d:
                started = d["START"]
            elif "DONE" in d:
                done = True
            elif "run" in d:
                finished.add(d["run"])
    return started, finished, done


def main(argv=None):
    ap = argparse.ArgumentParser()
    ap.add_argument("--engine", required=True)
    ap.add_argument("--check", required=True)
    ap.add_argument("--seed", type=int, default=0)
    ap.add_argument("--first", type=int, default=0)
    ap.add_argument("--count", type=int, default=100)
    ap.add_argument("--workers", type=int, default=16)
    ap.add_argument("--budget", type=float, default=60.0)
    ap.add_argument("--run-cap", type=float, default=60.0)
    ap.add_argument("--out", required=True)
    ap.add_argument("--tier", default="quick")
    ap.add_argument("--entries", default="")
    args = ap.parse_args(argv)
    args.t0 = time.time()
    os.makedirs(args.out, exist_ok=True)
    from . import env
    env.setup(args.engine)
    from . import checks_registry as R  # noqa  (imports skglm before forking)
    R.warm(args.check)
    if args.check == "C09" and args.engine != "twin":
        # C09 uses one fixed set of kernels: compile them once here, the forked workers inherit
        # the machine code (on a fresh machine 16 concurrent compilations ate the whole budget)
        try:
            execute_one(args.check, args.seed, 0, args.engine, args.tier)
        except Exception:
            pass
        args.t0 = time.time()
    W = max(1, args.workers)
    entries = [[int(x) for x in e.split("+")] if "+" in e else int(e)
               for e in args.entries.split(",") if e != ""]
    all_runs = list(range(args.first, args.first + args.count))
    shards = {k: all_runs[k::W] for k in range(W)}
    shard_entry = {k: (entries[k % len(entries)] if entries else None) for k in range(W)}
    pids = {}
    died = []
    import multiprocessing
    beat = multiprocessing.RawArray("d", 2 * W)   # (current run, start time) per worker
    hung = {}

    def spawn(k, runs):
        beat[2 * k + 1] = 0.0
        pid = os.fork()
        if pid == 0:
            try:
                worker_main(k, args, runs, shard_entry[k], beat)
            finally:
                os._exit(1)
        pids[pid] = k

    for k in range(W):
        if shards[k]:
            spawn(k, shards[k])
    while pids:
        pid, status = os.waitpid(-1, os.WNOHANG)
        if pid == 0:
            # a compiled kernel cannot be interrupted by SIGALRM: enforce the cap from outside
            now = time.time()
            for wpid, wk in list(pids.items()):
                t_start = beat[2 * wk + 1]
                if t_start and now - t_start > args.run_cap + 20:
                    hung[wpid] = int(beat[2 * wk])
                    try:
                        os.kill(wpid, signal.SIGKILL)
                    except ProcessLookupError:
                        pass
            time.sleep(0.25)
            continue
        k = pids.pop(pid)
        path = os.path.join(args.out, f"{args.engine}.{k}.jsonl")
        started, finished, done = last_started(path)
        if done:
            continue
        # the worker died: attribute to the run it had started and not finished
        code = -os.WTERMSIG(status) if os.WIFSIGNALED(status) else os.WEXITSTATUS(status)
        if started is not None and started not in finished:
            if pid in hung:
                rec = dict(run=started, hang=True, inconclusive="hang")
            else:
                rec = dict(run=started, worker_died=code)
            died.append(rec)
            with open(path, "a") as f:
                f.write(json.dumps(rec) + "\n")
            remaining = [r for r in shards[k] if r > started]
        else:
            remaining = [r for r in shards[k] if r not in finished]
        if remaining and time.time() < args.t0 + args.budget:
            shards[k] = remaining
            spawn(k, remaining)
    print(json.dumps(dict(engine=args.engine, wall=time.time() - args.t0, died=died)))
    return 0


if __name__ == "__main__":
    sys.exit(main())
