"""Process-level environment: engine selection, thread pinning, import path, shims, stub.

Must be imported (and ``setup`` called) before numba / skglm are imported.

engines
    twin      the same skglm source files executed with NUMBA_DISABLE_JIT=1 (plain Python)
    compiled  real numba
    bounds    real numba with NUMBA_BOUNDSCHECK=1
"""
import os
import sys

VERIF_DIR = os.path.dirname(os.path.dirname(os.path.abspath(__file__)))
REPO = os.environ.get("VERIF_REPO", "/repo")
_STATE = {"engine": None}


def pin_threads():
    for k in ("OMP_NUM_THREADS", "OPENBLAS_NUM_THREADS", "MKL_NUM_THREADS",
              "NUMBA_NUM_THREADS", "VECLIB_MAXIMUM_THREADS"):
        os.environ[k] = "1"


def setup(engine):
    """Configure this interpreter for ``engine`` and import skglm from REPO."""
    if _STATE["engine"] is not None:
        if _STATE["engine"] != engine:
            raise RuntimeError(f"engine already set to {_STATE['engine']}")
        return
    if "numba" in sys.modules:
        raise RuntimeError("sim.env.setup must run before numba is imported")
    pin_threads()
    os.environ.pop("NUMBA_DISABLE_JIT", None)
    os.environ.pop("NUMBA_BOUNDSCHECK", None)
    if engine == "twin":
        os.environ["NUMBA_DISABLE_JIT"] = "1"
    elif engine == "bounds":
        os.environ["NUMBA_BOUNDSCHECK"] = "1"
    elif engine != "compiled":
        raise ValueError(engine)
    os.environ["SKGLM_VERIF"] = "1"     # reserved hook guard (no hooks exist in the source)
    if REPO not in sys.path:
        sys.path.insert(0, REPO)        # wins over the editable-install finder
    import warnings
    warnings.simplefilter("ignore")
    import numpy as np
    np.seterr(all="ignore")
    import skglm  # noqa
    if os.path.realpath(os.path.dirname(os.path.dirname(skglm.__file__))) != os.path.realpath(REPO):
        raise RuntimeError(f"skglm imported from {skglm.__file__}, expected {REPO}")
    if engine == "twin":
        # numba's bool_ is used as a numpy dtype in penalties/separable.py; under
        # NUMBA_DISABLE_JIT that needs the numpy type.  Harness shim, twin only.
        import skglm.penalties.separable as sep
        import skglm.penalties.block_separable as bsep
        sep.bool_ = np.bool_
        bsep.bool_ = np.bool_
    install_validate_data_stub()
    _STATE["engine"] = engine


def engine():
    return _STATE["engine"]


def install_validate_data_stub():
    """scikit-learn >= 1.6 removed BaseEstimator._validate_data, which skglm's regression
    estimators still call.  Stub: the two check_array calls the caller asks for."""
    import sklearn.base
    from sklearn.utils import check_array
    if hasattr(sklearn.base.BaseEstimator, "_validate_data"):
        return False

    def _validate_data(self, X, y, validate_separately=None, **kw):
        cx, cy = validate_separately
        return check_array(X, **cx), check_array(y, **cy)
    sklearn.base.BaseEstimator._validate_data = _validate_data
    return True


def seed_rng(seed):
    """Pin every hidden generator: numpy's global one (used by the twin's spectral_norm)
    and numba's private one (compiled engines)."""
    import numpy as np
    np.random.seed(seed % (2 ** 32))
    if _STATE["engine"] in ("compiled", "bounds"):
        _numba_seed(seed % (2 ** 32))


_NUMBA_SEEDER = []


def _numba_seed(s):
    if not _NUMBA_SEEDER:
        import numpy as np
        from numba import njit

        @njit
        def _seed(x):
            np.random.seed(x)
        _NUMBA_SEEDER.append(_seed)
    _NUMBA_SEEDER[0](s)
