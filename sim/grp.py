"""Reference reading of the documented group specification formats (no skglm import)."""
import numpy as np


def grp_converter_ref(groups, n_features):
    """int: contiguous blocks of that size; list of ints: contiguous blocks of those sizes;
    list of lists: explicit feature indices per group.  Returns (grp_indices, grp_ptr)."""
    if isinstance(groups, (int, np.integer)):
        size = int(groups)
        if n_features % size:
            raise ValueError("n_features is not a multiple of the group size")
        sizes = [size] * (n_features // size)
        idx = np.arange(n_features)
    elif isinstance(groups, list) and all(isinstance(g, (int, np.integer)) for g in groups):
        sizes = [int(g) for g in groups]
        idx = np.arange(n_features)
    elif isinstance(groups, list):
        sizes = [len(g) for g in groups]
        idx = np.array([j for g in groups for j in g], dtype=int)
    else:
        raise ValueError("unsupported group format")
    ptr = np.concatenate([[0], np.cumsum(sizes)]).astype(int)
    return idx, ptr
