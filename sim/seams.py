"""Seams: interposition points the simulator owns while a solver runs.

No source hook is needed: solver control flow is Python that looks its collaborators up in
module globals / the numpy namespace at call time.

    numpy.argpartition   working-set order / tie-breaks (F-WS-ORDER), outer-iteration counter
    numpy.linalg.solve   extrapolation outcome (F-AA-SINGULAR, F-AA-ILLCOND), coefficient probe
    kernel wrappers      epoch counters (observation only)

Every wrapper is a pass-through when no fault is armed, and is only active inside
``Seams.active()``.
"""
import contextlib
import numpy as np

_ORIG_ARGPARTITION = np.argpartition
_ORIG_SOLVE = np.linalg.solve

KERNELS = [
    ("skglm.solvers.anderson_cd", "_cd_epoch"), ("skglm.solvers.anderson_cd", "_cd_epoch_sparse"),
    ("skglm.solvers.group_bcd", "_bcd_epoch"), ("skglm.solvers.group_bcd", "_bcd_epoch_sparse"),
    ("skglm.solvers.multitask_bcd", "_bcd_epoch"),
    ("skglm.solvers.multitask_bcd", "_bcd_epoch_sparse"),
    ("skglm.solvers.gram_cd", "_gram_cd_epoch"),
    ("skglm.solvers.prox_newton", "_descent_direction"),
    ("skglm.solvers.prox_newton", "_descent_direction_s"),
    ("skglm.solvers.group_prox_newton", "_descent_direction"),
]

# backtracking line searches (observation only): (module, name, index of Xw, index of X @ direction)
LINE_SEARCHES = [
    ("skglm.solvers.prox_newton", "_backtrack_line_search", 3, 8),
    ("skglm.solvers.prox_newton", "_backtrack_line_search_s", 5, 10),
    ("skglm.solvers.group_prox_newton", "_backtrack_line_search", 3, 8),
]
LS_LAST_STEP = 2.0 ** -19        # the 20th and last trial step


class SimInterrupt(KeyboardInterrupt):
    """The simulated Ctrl-C / worker kill (F-INTERRUPT): raised by the simulator at the k-th
    seam event of a call - just before a working-set selection or a kernel call - and never
    caught by library code (it derives from BaseException like a real KeyboardInterrupt)."""


class Seams:
    """One instance per simulated solver call."""

    def __init__(self, faults=None, rng=None):
        faults = faults or {}
        # {"ws_order": int seed | None, "aa": {"<k>": kind}}  kinds: singular, huge, nan, inf,
        # sumzero, noise
        self.ws_perm_seed = faults.get("ws_order")
        self.aa = {int(k): v for k, v in (faults.get("aa") or {}).items()}
        self.n_argpartition = 0
        self.n_solve = 0
        self.n_epochs = 0
        self.n_linesearch = 0
        self.ls_exhausted = 0    # line searches that ended on their last trial step
        self.ws_sizes = []
        self.aa_events = []      # (k, outcome, sum_abs_c)
        self.fired = {}
        self.missing = []
        self._perm_rng = None if self.ws_perm_seed is None else \
            np.random.Generator(np.random.PCG64(int(self.ws_perm_seed)))
        # {"interrupt": k}: the call is killed at its k-th seam event (0-based)
        self.interrupt_at = faults.get("interrupt")
        self.n_events = 0
        self.interrupted = False

    def _event(self):
        k = self.n_events
        self.n_events += 1
        if self.interrupt_at is not None and k == int(self.interrupt_at):
            self._fire("F-INTERRUPT")
            self.interrupted = True
            raise SimInterrupt(f"simulated interrupt at seam event {k}")

    def _fire(self, kind):
        self.fired[kind] = self.fired.get(kind, 0) + 1

    # ---- numpy.argpartition
    def argpartition(self, a, kth, *args, **kw):
        self._event()
        res = _ORIG_ARGPARTITION(a, kth, *args, **kw)
        self.n_argpartition += 1
        try:
            k = int(kth)
            size = -k if k < 0 else len(res) - k
            self.ws_sizes.append(int(size))
            if self._perm_rng is not None and res.ndim == 1 and 0 < size <= len(res):
                tail = res[len(res) - size:].copy()
                self._perm_rng.shuffle(tail)
                res = res.copy()
                res[len(res) - size:] = tail
                self._fire("F-WS-ORDER")
        except (TypeError, ValueError):
            pass
        return res

    # ---- numpy.linalg.solve
    def solve(self, A, b, *args, **kw):
        k = self.n_solve
        self.n_solve += 1
        kind = self.aa.get(k)
        if kind == "singular":
            self._fire("F-AA-SINGULAR")
            self.aa_events.append((k, "singular", None))
            raise np.linalg.LinAlgError("Singular matrix (injected)")
        z = _ORIG_SOLVE(A, b, *args, **kw)
        if kind is not None:
            self._fire("F-AA-ILLCOND")
            z = np.array(z, dtype=float)
            m = len(z)
            if kind == "huge":
                z = z + 1e12 * (np.arange(m) % 2 * 2 - 1) * (1 + abs(z).max())
            elif kind == "nan":
                z[0] = np.nan
            elif kind == "inf":
                z[-1] = np.inf
            elif kind == "sumzero":
                z = z - z.mean() + 1e-18
            elif kind == "noise":
                z = z * (1 + 0.5 * np.cos(np.arange(m) * 1.7)) + 3.0 * np.sin(np.arange(m) * 2.3)
            elif kind == "negate":
                z = -np.abs(z) * np.array([(-1.0) ** i * (i + 1) for i in range(m)])
        try:
            with np.errstate(all="ignore"):
                s = float(np.sum(z))
                sabs = float(np.sum(np.abs(z / s))) if s != 0 else float("inf")
        except Exception:
            sabs = None
        self.aa_events.append((k, kind or "ok", sabs))
        return z

    def max_abs_c(self):
        vals = [e[2] for e in self.aa_events if e[2] is not None and np.isfinite(e[2])]
        return max(vals) if vals else 0.0

    # ---- kernel counters
    def _count_wrap(self, fn):
        seams = self

        def wrapped(*a, **kw):
            seams._event()
            seams.n_epochs += 1
            return fn(*a, **kw)
        wrapped.__wrapped__ = fn
        return wrapped

    def _ls_wrap(self, fn, i_Xw, i_Xd):
        """Which step did the line search end on?  Read off the in-place model fit:
        Xw_after - Xw_before = step * (X @ direction)."""
        seams = self

        def wrapped(*a, **kw):
            try:
                before = np.array(a[i_Xw], dtype=float)
                Xd = np.asarray(a[i_Xd], dtype=float)
            except Exception:
                return fn(*a, **kw)
            out = fn(*a, **kw)
            seams.n_linesearch += 1
            try:
                if Xd.size and np.all(np.isfinite(Xd)):
                    k = int(np.argmax(np.abs(Xd)))
                    if Xd[k] != 0:
                        step = (float(a[i_Xw][k]) - before[k]) / Xd[k]
                        if not np.isfinite(step) or step <= LS_LAST_STEP * (1 + 1e-6):
                            seams.ls_exhausted += 1
                else:
                    seams.ls_exhausted += 1
            except Exception:
                pass
            return out
        wrapped.__wrapped__ = fn
        return wrapped

    @contextlib.contextmanager
    def active(self):
        import importlib
        np.argpartition = self.argpartition
        np.linalg.solve = self.solve
        patched = []
        for modname, attr in KERNELS:
            try:
                mod = importlib.import_module(modname)
                fn = getattr(mod, attr)
            except (ImportError, AttributeError):
                self.missing.append(f"{modname}.{attr}")
                continue
            setattr(mod, attr, self._count_wrap(fn))
            patched.append((mod, attr, fn))
        for modname, attr, i_Xw, i_Xd in LINE_SEARCHES:
            try:
                mod = importlib.import_module(modname)
                fn = getattr(mod, attr)
            except (ImportError, AttributeError):
                self.missing.append(f"{modname}.{attr}")
                continue
            setattr(mod, attr, self._ls_wrap(fn, i_Xw, i_Xd))
            patched.append((mod, attr, fn))
        try:
            yield self
        finally:
            np.argpartition = _ORIG_ARGPARTITION
            np.linalg.solve = _ORIG_SOLVE
            for mod, attr, fn in patched:
                setattr(mod, attr, fn)

    def summary(self):
        return dict(outer=self.n_argpartition, epochs=self.n_epochs, ws=self.ws_sizes[:8],
                    aa=[(k, o) for k, o, _ in self.aa_events[:12]],
                    aa_n=len(self.aa_events), max_abs_c=self.max_abs_c(), fired=dict(self.fired),
                    n_linesearch=self.n_linesearch, ls_exhausted=self.ls_exhausted)
