"""Known findings: genuine defects of the pinned tree that are recorded rather than repaired.

/verif/known_findings.json is read-only at run time.  An entry with status "known" matches a
violation record through a narrow matcher over the record's property, oracle, signature and
root-cause features; "fixed" entries are documentation only and suppress nothing.

matcher language:  {"key": value}                equality
                   {"key": {"in": [...]}}        membership
                   {"key": {"le"|"ge"|"lt"|"gt": x}}
                   {"key": {"contains": "text"}}
keys address  feat.<name>,  detail.<name>, oracle, sig (joined with '|').
"""
import json
import os

PATH = os.path.join(os.path.dirname(os.path.dirname(os.path.abspath(__file__))),
                    "known_findings.json")


def load():
    if not os.path.exists(PATH):
        return []
    return json.load(open(PATH)).get("findings", [])


def _get(v, key):
    if key == "oracle":
        return v.get("oracle")
    if key == "sig":
        return "|".join(str(x) for x in v.get("sig", []))
    if key.startswith("detail."):
        return (v.get("detail") or {}).get(key[7:])
    if key.startswith("feat."):
        return (v.get("feat") or {}).get(key[5:])
    return (v.get("feat") or {}).get(key)


def _num(x):
    if x == "inf":
        return float("inf")
    if x == "-inf":
        return float("-inf")
    if x == "nan":
        return float("nan")
    return x


def _cond(val, cond):
    val = _num(val)
    if isinstance(cond, dict):
        for op, ref in cond.items():
            if op == "in":
                if val not in ref:
                    return False
            elif op == "contains":
                if val is None or ref not in str(val):
                    return False
            elif op == "is_none":
                if (val is None) != bool(ref):
                    return False
            else:
                if val is None:
                    return False
                try:
                    if op == "le" and not val <= ref:
                        return False
                    if op == "ge" and not val >= ref:
                        return False
                    if op == "lt" and not val < ref:
                        return False
                    if op == "gt" and not val > ref:
                        return False
                except TypeError:
                    return False
        return True
    return val == cond


def match(v, prop, findings):
    for f in findings:
        if f.get("status") != "known" or f.get("property") != prop:
            continue
        if all(_cond(_get(v, k), c) for k, c in f.get("match", {}).items()):
            return f
    return None
