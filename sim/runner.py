"""Execute one solver-level plan: operations, invariants after every operation, end-state
oracles at quiescence.  Pure function of (plan, engine, source tree)."""
import copy
import time
import numpy as np

from . import binding as B
from . import env
from .session import Session
from .oracles import Judge, claims_convergence, criterion_of, EPS, REL


def _sig_events(res_list):
    sig = []
    for r in res_list[:8]:
        se = r.get("seam") or {}
        sig.append((tuple(se.get("ws", [])[:4]), min(se.get("epochs", 0), 99),
                    tuple(o for _, o in (se.get("aa") or [])[:4]), r.get("outcome")))
    return tuple(sig)


def run_plan(plan):
    t0 = time.time()
    env.seed_rng(int(plan.get("rng_seed", 0)))
    s = Session(plan)
    J = Judge(s)
    check = plan["check"]
    import numpy as _np
    _X = _np.asarray(plan["data"]["X"], dtype=float)
    has_zero_col = bool((~_np.abs(_X).any(axis=0)).any())
    degenerate = bool(plan["data"].get("degen")) or has_zero_col
    violations = []
    results = []
    counts = dict(solved=0, refused=0, crashed=0, claimed=0, stops=0)

    def note(res):
        results.append(res)
        oc = res.get("outcome")
        if oc in counts:
            counts[oc] += 1
        if res.get("claimed"):
            counts["claimed"] += 1

    def tag(vs, i):
        for v in vs:
            v["op"] = i
        violations.extend(vs)

    for i, op in enumerate(plan["ops"]):
        kind = op["op"]
        s.logical["ops"] += 1
        if kind == "solve":
            start_, w0_, raw_ = op.get("start", "cold"), op.get("w0"), bool(op.get("raw_w0"))
            if op.get("bump") is not None and s.w is not None and s.fit_intercept(op["knobs"]) \
                    and np.shape(s.w)[0] == s.p_s + 1:
                # the surviving solution with its intercept(s) edited by the user: a start point
                w0_ = np.array(s.w, dtype=float, copy=True)
                b_ = np.asarray(op["bump"], dtype=float)
                w0_[s.p_s] = w0_[s.p_s] + (b_[:w0_.shape[1]] if w0_.ndim == 2 else b_[0])
                start_, raw_ = "point", True
            res = s.call_solver(op["knobs"], start_, w0_,
                                op.get("faults"), op.get("storage", plan.get("storage", "F")),
                                raw_w0=raw_)
            res["faults"] = op.get("faults")
            ctx = dict(warm=res["start"] in ("buffers", "point"), degenerate=degenerate, check=check)
            tag(J.judge_result(res, ctx), i)
            if plan.get("matrix"):
                tag(judge_matrix_optimum(s, J, res, op), i)
            s.adopt(res)
            note(res)
        elif kind == "grid":
            tag(run_grid(s, J, op, plan, degenerate, results, counts), i)
        elif kind == "set":
            s.op_set(op)
        elif kind == "path":
            res = s.op_path(op)
            tag(judge_path(s, J, op, res, degenerate), i)
            note(res)
        elif kind == "quiesce":
            tag(run_quiesce(s, J, op, plan, degenerate, results, counts), i)
        elif kind == "cache":
            from skglm.utils.jit_compilation import jit_cached_compile
            jit_cached_compile.cache_clear()
            s.penalty = None
            s.datafit = None
            s.fired["F-CACHE"] = s.fired.get("F-CACHE", 0) + 1
        else:
            raise ValueError(kind)

    for v in violations:
        v["sig"] = tuple(v["sig"])
    fam = plan["family"]
    nontrivial = s.logical["epochs"] > 1 or s.logical["outer"] > 1
    return dict(
        check=check, seed=plan.get("seed"), run=plan.get("run"), engine=env.engine(),
        digest=s.digest(), violations=violations, counts=counts, logical=dict(s.logical),
        fired=dict(s.fired), probes=dict(s.probes), seam_missing=sorted(s.seam_missing),
        distinct_key=(fam["solver"], fam["datafit"], fam.get("variant", fam["penalty"]),
                      plan.get("storage"), _sig_events(results)) if nontrivial else None,
        wall=time.time() - t0,
        n_results=len(results),
        final=_final(results, J, s) if plan.get("record_final") else None,
        fam=[fam["solver"], fam["datafit"], fam["penalty"]],
        cell=plan.get("cell"), draws=plan.get("draws"),
        outcomes=[r.get("outcome") for r in results][:4] if plan.get("matrix") else None,
    )


def judge_matrix_optimum(s, J, res, op):
    """C13 '... returns finite values meeting the optimality certificate' for the solvers whose
    stopping value is not the subdifferential residual of the returned point (FISTA scores the
    extrapolated point, PDCD_WS a primal-dual fixed point): a cold-started cell that claims
    convergence on a convex, unconstrained-penalty problem must be within the C02 margin of
    the witness optimum.  (Constrained penalties and warm starts are left to the known FISTA
    findings of C02 / C05.)"""
    if s.solver_name not in ("FISTA", "PDCD_WS") or res.get("exc") is not None or res.get("w") is None \
            or not res.get("claimed") or res["start"] not in ("cold", "cold_buf"):
        return []
    try:
        pr, w, b = J.split(res)
    except Exception:
        return []
    if not pr.pen.convex or pr.pen.has_constraint or pr.pen.kind == "vec" or not pr.finite(w, b):
        return []
    if not (pr.loss.smooth or pr.loss.name in ("Pinball", "SqrtQuadratic")):
        return []
    tol = res["knobs"].get("tol", 1e-4)
    try:
        vs = judge_optimum(s, J, pr, res, w, b, tol, False, op)
    except Exception:
        return []
    for v in vs:
        v["prop"] = ["C13"]
        v["oracle"] = "matrix_optimum"
        v["sig"] = tuple(v["sig"][:3]) + ("claims_convergence_far_from_optimum",)
    return vs


def _final(results, J, s):
    """Compact end states for cross-engine comparison (C20): outcome class, whether convergence
    was claimed, reference objective, coefficients."""
    out = []
    for r in results:
        if r.get("exc") is not None:
            out.append(dict(outcome=r.get("outcome"), exc=r["exc"]["type"]))
        elif r.get("w") is not None:
            P, exact = None, False
            try:
                P = J.objective_of(r)
                pr = J.problem(r["fi"])
                exact = bool(pr.pen.convex and criterion_of(s.solver_name, r["knobs"]) == "subdiff"
                             and s.solver_name in B.C01_SOLVERS)
            except Exception:
                pass
            out.append(dict(outcome="solved", w=np.asarray(r["w"], dtype=float).ravel().tolist(),
                            claimed=bool(r.get("claimed")), tol=r["knobs"].get("tol"), P=P, exact=exact))
    return out


def _unused():
    return None


# ---------------------------------------------------------------------- crash-point grid

def run_grid(s, J, op, plan, degenerate, results, counts):
    """Every budget of ``op['budgets']`` is one crash point of the same deterministic
    trajectory, started from the same state."""
    out = []
    solver = s.solver_name
    inner = B.INNER_BUDGET.get(solver)
    start_w, start_Xw = (None if s.w is None else s.w.copy()), (None if s.Xw is None else s.Xw.copy())
    table = {}
    grid_key = 500 + s.logical["ops"]
    for (m, e) in op["budgets"]:
        knobs = dict(op["knobs"])
        knobs["max_iter"] = int(m)
        if inner:
            knobs[inner] = int(e)
        s.w = None if start_w is None else start_w.copy()
        s.Xw = None if start_Xw is None else start_Xw.copy()
        res = s.call_solver(knobs, op.get("start", "cold"), op.get("w0"), op.get("faults"),
                            op.get("storage", plan.get("storage", "F")), rng_key=grid_key)
        res["faults"] = op.get("faults")
        if plan.get("tightened") and res.get("w_start") is not None:
            try:
                pr0 = J.problem(res["fi"])
                res["infeasible_start"] = bool(pr0.pen.has_constraint
                                               and not pr0.pen.feasible(pr0.split(res["w_start"])[0]))
            except Exception:
                res["infeasible_start"] = False
        ctx = dict(warm=res["start"] in ("buffers", "point"), degenerate=degenerate,
                   check=plan["check"])
        out.extend(J.judge_result(res, ctx))
        res["budget"] = (int(m), int(e))
        table[(int(m), int(e))] = res
        results.append(res)
        counts["stops"] += 1
        oc = res.get("outcome")
        if oc in counts:
            counts[oc] += 1
        if res.get("claimed"):
            counts["claimed"] += 1
    s.w, s.Xw = start_w, start_Xw
    out.extend(judge_chains(s, J, op, table))
    return out


def _descent_applicable(s, J, res):
    """C03 covers descent solvers with convex penalties, or non-convex penalties inside
    their well-posed step range (reference-model predicate)."""
    if s.solver_name not in B.DESCENT_SOLVERS:
        return False
    pr = J.problem(res["fi"])
    pen = pr.pen
    if pen.convex:
        return True
    if s.solver_name in ("ProxNewton", "GroupProxNewton"):
        return False
    Lc = pr.unit_lipschitz(mode="global")
    if Lc is None:
        return False
    pos = Lc[Lc > 0]
    if len(pos) == 0:
        return True
    name = pen.name
    if name in ("MCPenalty", "WeightedMCPenalty", "BlockMCPenalty"):
        wt = getattr(pen, "weights", None)
        wmax = 1.0 if wt is None else float(np.max(wt))
        return bool(pen.gamma > 1.05 * wmax / np.min(pos))
    if name in ("SCAD", "BlockSCAD"):
        return bool(pen.gamma > 1.05 * (1 + 1.0 / np.min(pos)))
    return True   # L0_5, L2_3, LogSum, L2_05: the prox is a global minimiser for every step


def judge_chains(s, J, op, table):
    out = []
    keys = sorted(k for k, r in table.items() if r["exc"] is None and r.get("w") is not None)
    if not keys:
        return out
    first = table[keys[0]]
    if not _descent_applicable(s, J, first):
        # C17 prefix consistency still applies
        return judge_prefix(s, J, table, keys)
    pr = J.problem(first["fi"])
    sig0 = (s.solver_name, s.dname, s.pname)
    P0 = J.start_objective(first)
    objs = {k: J.objective_of(table[k]) for k in keys}

    def slack(k, ref):
        r = table[k]
        w, b = pr.split(r["w"])
        sc = pr.rounding_scale(w, b) if pr.finite(w, b) else 1.0
        return 1e-9 * (1 + abs(ref)) + 1e4 * EPS * sc + J.drift_allow(pr, r, w, b) \
            if pr.finite(w, b) else 0.0

    start_feasible = np.isfinite(P0)
    for k in keys:
        if objs[k] is None:
            continue
        if start_feasible and objs[k] > P0 + slack(k, P0):
            out.append(dict(prop=["C03"], oracle="descent_from_start", sig=sig0 + ("above_start",),
                            detail=dict(budget=k, start=float(P0), returned=float(objs[k])),
                            feat=J.feat(table[k], dict(budget=list(k), excess=float(objs[k] - P0)))))
    # prefix-ordered chains only
    chains = []
    es = sorted({e for (_, e) in keys})
    for e in es:
        ms = sorted(m for (m, ee) in keys if ee == e)
        if len(ms) > 1:
            chains.append([(m, e) for m in ms])
    e1 = sorted(e for (m, e) in keys if m == 1)
    if len(e1) > 1:
        chains.append([(1, e) for e in e1])
    for ch in chains:
        for a, b_ in zip(ch[:-1], ch[1:]):
            Pa, Pb = objs[a], objs[b_]
            if Pa is None or Pb is None or not np.isfinite(Pa):
                continue
            if Pb > Pa + slack(b_, Pa):
                out.append(dict(prop=["C03"], oracle="monotone_in_budget",
                                sig=sig0 + ("increase_along_chain",),
                                detail=dict(shorter=a, longer=b_, P_shorter=float(Pa),
                                            P_longer=float(Pb)),
                                feat=J.feat(table[b_], dict(shorter=list(a), longer=list(b_),
                                                            excess=float(Pb - Pa)))))
    out.extend(judge_prefix(s, J, table, keys))
    return out


def judge_prefix(s, J, table, keys):
    """C17(b): by prefix determinism entry k of the history returned under budget K is the
    history entry returned under budget k (whose last entry is checked against the
    reference objective by the per-result oracle)."""
    out = []
    sig0 = (s.solver_name, s.dname, s.pname)
    if s.solver_name == "FISTA":
        # FISTA has no kernel seam to count iterations at, but the crash points themselves
        # count them: a run that stopped on its tolerance under budget K returns bit for bit
        # what the run with budget k returns for every k from the number of iterations it
        # performed on; the smallest such budget of the grid (provided budget k - 1 is in the
        # grid too and returns something else) is a lower bound of that number, and of the
        # length of its history.
        ms = sorted(m for (m, _) in keys)
        for K in ms:
            rK = table[(K, 0)] if (K, 0) in table else None
            if rK is None or not rK.get("claimed") or rK.get("w") is None:
                continue
            same = [m for m in ms if m <= K and table[(m, 0)].get("w") is not None
                    and np.array_equal(table[(m, 0)]["w"], rK["w"])]
            if not same:
                continue
            k = min(same)
            # (at least k iterations were performed - more if the iterate repeated itself while
            # the criterion, evaluated at the extrapolated point, was still above tol - so a
            # history shorter than k has lost entries)
            if k >= 1 and (k - 1) in ms and (k - 1) not in same and len(rK["obj_out"]) < k:
                out.append(dict(prop=["C17"], oracle="history_length",
                                sig=sig0 + ("history_length",),
                                detail=dict(len=len(rK["obj_out"]), performed=int(k), max_iter=int(K)),
                                feat=J.feat(rK, dict(len=len(rK["obj_out"]), performed=int(k)))))
                break
    es = sorted({e for (_, e) in keys})
    for e in es:
        ms = sorted(m for (m, ee) in keys if ee == e)
        for a, b_ in zip(ms[:-1], ms[1:]):
            ha, hb = table[(a, e)]["obj_out"], table[(b_, e)]["obj_out"]
            la = min(len(ha), a)
            if la == 0:
                continue
            if len(hb) < la or not np.allclose(hb[:la], ha[:la], rtol=1e-12, atol=0, equal_nan=True):
                out.append(dict(prop=["C17"], oracle="history_prefix",
                                sig=sig0 + ("history_prefix",),
                                detail=dict(shorter=(a, e), longer=(b_, e), len_shorter=len(ha),
                                            len_longer=len(hb)),
                                feat=J.feat(table[(b_, e)])))
    return out


# ---------------------------------------------------------------------- paths

def judge_path(s, J, op, res, degenerate):
    out = []
    sig0 = (s.solver_name, s.dname, s.pname)
    if res["exc"] is not None:
        from .oracles import is_refusal
        if res["exc"].get("harness"):
            raise RuntimeError(f"harness error: {res['exc']}")
        if is_refusal(res["exc"]):
            res["outcome"] = "refused"
            return out
        res["outcome"] = "crashed"
        out.append(dict(prop=["C13", "C05"], oracle="crash",
                        sig=sig0 + ("path_crash", res["exc"]["type"], res["exc"].get("where")),
                        detail=dict(exc=res["exc"]),
                        feat=dict(solver=s.solver_name, datafit=s.dname, penalty=s.pname,
                                  exc_type=res["exc"]["type"], where=res["exc"].get("where"),
                                  fi=res["fi"], storage=res["storage"], path=True,
                                  w0=op.get("w0") is not None)))
        return out
    res["outcome"] = "solved"
    tol = op["knobs"].get("tol", 1e-4)
    crit = criterion_of(s.solver_name, op["knobs"])
    saved = copy.deepcopy(s.pargs)
    coefs = res["coefs"]
    for t, alpha in enumerate(res["alphas"]):
        s.pargs["alpha"] = float(alpha)
        pr = J.problem(res["fi"])
        c = coefs[..., t] if not pr.multitask else coefs[:, :, t].T
        w, b = pr.split(c)
        if not pr.finite(w, b):
            out.append(dict(prop=["C05", "C13"], oracle="finite", sig=sig0 + ("path_nonfinite",),
                            detail=dict(t=t), feat=dict(solver=s.solver_name, path=True)))
            continue
        if pr.pen.has_constraint and not pr.pen.feasible(w):
            out.append(dict(prop=["C04"], oracle="feasible", sig=sig0 + ("path_infeasible",),
                            detail=dict(t=t, min=float(np.min(w))),
                            feat=dict(solver=s.solver_name, datafit=s.dname, penalty=s.pname,
                                      path=True, positive=True)))
        sc = float(res["stop_crits"][t])
        if claims_convergence(s.solver_name, sc, tol) and crit in ("subdiff", "fixpoint"):
            cert = pr.certificate(w, b, criterion=crit)
            # along a path the model-fit buffer is carried from one alpha to the next
            cmax = max((res.get("seam") or {}).get("hist_max_abs_c", 0.0) or 0.0,
                       (res.get("seam") or {}).get("max_abs_c", 0.0) or 0.0)
            allow = cert["allowance"] * (1 + t) + 100 * EPS * cmax * pr.rounding_scale(w, b)
            bound = tol * (1 + REL) + allow
            if cert["value"] > bound:
                only_int = cert["coef_part"] <= bound < cert["intercept_part"]
                bad_units = np.where(np.asarray(cert["per_unit"]) > bound)[0]
                only_zero_cols = bool(len(bad_units)) and cert["intercept_part"] <= bound and all(
                    not pr.absX[:, pr.pen.unit_indices(int(k), pr.p)].any() for k in bad_units)
                out.append(dict(
                    prop=["C05", "C01"], oracle="certificate",
                    sig=sig0 + ("path_certificate", crit, "intercept_only" if only_int else "coef"),
                    detail=dict(t=t, alpha=float(alpha), stop_crit=sc, tol=tol,
                                recomputed=cert["value"], coef_part=cert["coef_part"],
                                intercept_part=cert["intercept_part"]),
                    feat=dict(solver=s.solver_name, datafit=s.dname, penalty=s.pname, path=True,
                              fi=res["fi"], t=t, n_alphas=len(res["alphas"]), criterion=crit,
                              only_intercept=bool(only_int), only_zero_columns=bool(only_zero_cols),
                              ratio=cert["value"] / tol,
                              intercept_ratio=cert["intercept_part"] / tol,
                              storage=res["storage"], tol=tol, w0=op.get("w0") is not None,
                              zero_weights=bool(np.any(np.asarray(s.pargs.get("weights", [1.0])) == 0)),
                              max_abs_c=(res.get("seam") or {}).get("max_abs_c", 0.0))))
        # n_iters is the length of each objective history: bounded by the budget
        if res["n_iters"] is not None and res["n_iters"][t] > op["knobs"].get("max_iter", 10 ** 9):
            out.append(dict(prop=["C17"], oracle="history_longer_than_budget",
                            sig=sig0 + ("path_history_gt_budget",), detail=dict(t=t),
                            feat=dict(solver=s.solver_name, path=True)))
    s.pargs.clear()
    s.pargs.update(saved)
    s.pargs["alpha"] = float(res["alphas"][-1])
    return out


# ---------------------------------------------------------------------- quiescence

def ample_knobs(s, op, plan):
    """Quiescence means an ample budget: the budgets are fixed here and cannot be set (or
    shrunk) by the plan; only the schedule knobs and the tolerance come from the plan."""
    k = dict(op.get("knobs") or {})
    solver = s.solver_name
    inner = B.INNER_BUDGET.get(solver)
    k["max_iter"] = {"FISTA": 30000, "LBFGS": 3000, "GramCD": 20000, "PDCD_WS": 300}.get(solver, 200)
    if inner:
        k[inner] = 5000 if solver == "PDCD_WS" else {"max_epochs": 3000, "max_pn_iter": 300}[inner]
    if op.get("budget"):
        # a fixed smaller budget, still far beyond what the problem class of the op needs
        k["max_iter"] = int(op["budget"][0]) * (100 if solver == "GramCD" else 1)
        if inner:
            k[inner] = int(op["budget"][1])
    return k


def run_quiesce(s, J, op, plan, degenerate, results, counts):
    """Fault-free solve with ample budget from the surviving state, then the end-state
    oracles: reference optimum (C02), critical strength (C16), liveness."""
    out = []
    knobs = ample_knobs(s, op, plan)
    start = op.get("start", "buffers" if s.w is not None else "cold")
    res = s.call_solver(knobs, start, op.get("w0"), None, op.get("storage", plan.get("storage", "F")))
    res["faults"] = None
    res["quiesce"] = True
    warm = res["start"] in ("buffers", "point")
    ctx = dict(warm=warm, degenerate=degenerate, check=plan["check"])
    out.extend(J.judge_result(res, ctx))
    s.adopt(res)
    results.append(res)
    oc = res.get("outcome")
    if oc in counts:
        counts[oc] += 1
    if res["exc"] is not None or res.get("w") is None:
        return out
    pr, w, b = J.split(res)
    if not pr.finite(w, b):
        return out
    tol = knobs.get("tol", 1e-4)
    sig0 = (s.solver_name, s.dname, s.pname)
    claimed = claims_convergence(s.solver_name, res["stop_crit"], tol)
    if claimed:
        counts["claimed"] += 1
    gen = plan["data"].get("gen") or {}
    frac = plan["family"].get("alpha_frac") or 0.0
    # (Huber's intercept step is a gradient step bounded by delta per epoch: slow by design)
    quad_like = s.dname in (None, "Quadratic", "WeightedQuadratic", "QuadraticGroup",
                            "QuadraticMultiTask") or (s.dname == "Huber" and not res["fi"])
    # bounded liveness is only demanded where convergence within the budget is beyond doubt:
    # well-conditioned, non-degenerate, convex, curvature bounded below (quadratic-like losses;
    # logistic only when the regularisation keeps the solution away from infinity)
    easy = (gen.get("rho", 1) <= 0.9 and gen.get("scale_decades", 9) <= 1.0 and not degenerate
            and bool(pr.absX.any(axis=0).all()) and pr.pen.convex
            and pr.n >= pr.p + (1 if res["fi"] else 0)       # underdetermined problems converge slowly
            and (quad_like or (s.dname in ("Logistic", "LogisticGroup") and frac >= 0.1
                               and not res["fi"]
                               # (an unpenalised feature can separate the classes like an
                               # intercept: no finite optimum, no liveness)
                               and bool(np.all(pr.pen.penalized_mask(pr.p)))))
            and tol >= 1e-9)
    gscale = plan["family"].get("alpha_max_rm") or 0.0
    if op.get("liveness", True) and easy and not claimed and gscale > 0 and tol >= 1e-6 * gscale \
            and s.solver_name in B.C01_SOLVERS | {"FISTA"} and s.solver_name != "LBFGS" \
            and (s.solver_name != "FISTA" or tol >= 1e-3 * gscale):   # FISTA is O(1 / k^2)
        props = ["C02"] + (["C05"] if warm else [])
        out.append(dict(prop=props, oracle="liveness", sig=sig0 + ("no_convergence_ample_budget",),
                        detail=dict(stop_crit=res["stop_crit"], tol=tol, knobs=knobs),
                        feat=J.feat(res, dict(n_outer=(res.get("seam") or {}).get("outer")))))
    # ---- C05 (d): a warm start "yields ... a result meeting the same optimality certificate as a
    # cold start on that problem" - so where a cold start of the same problem with the same knobs
    # and budget claims convergence quickly (<= 20 outer iterations of the 200 granted), a warm
    # start that exhausts the whole budget without converging does not.  Convex penalties,
    # coordinate-descent solvers, quadratic-type losses (their rate does not depend on the start
    # point), tolerance well above rounding.
    if warm and not claimed and op.get("liveness", True) and pr.pen.convex \
            and s.solver_name in ("AndersonCD", "GroupBCD", "MultiTaskBCD", "GramCD") \
            and s.dname in (None, "Quadratic", "WeightedQuadratic", "QuadraticGroup", "QuadraticMultiTask") \
            and np.isfinite(res["stop_crit"]) and not pr.pen.has_constraint \
            and float(s.pargs.get("alpha", 0.0) or 0.0) >= 1e-4 * float(plan["family"].get("alpha_max_rm") or 0.0) > 0 \
            and (s.solver_name != "GroupBCD"
                 # (a block step uses one constant per group: a warm start far out along a badly
                 # scaled or nearly collinear direction *inside* a group travels at the pace of the
                 # group's condition number - slow by construction, not a defect)
                 or (gen.get("rho", 1) <= 0.9 and gen.get("scale_decades", 9) <= 1.0
                     and not str((plan["data"].get("degen") or {}).get("kind", "")).startswith("scale"))):
        floor = 1e2 * pr.certificate(w, b, criterion="subdiff")["allowance"] if pr.pen.kind != "vec" else np.inf
        if tol >= floor:
            cold = s.call_solver(knobs, "cold", None, None, op.get("storage", plan.get("storage", "F")),
                                 record=False)
            s.probe("warm_vs_cold_liveness_compared")
            work = ((cold.get("seam") or {}).get("outer") or 0) if s.solver_name != "GramCD" \
                else ((cold.get("seam") or {}).get("epochs") or 0) / 50.0
            # (a cold start that *is* the solution - y = 0, alpha above the critical value - says
            # nothing about the rate: the cold run must have done some work itself)
            if cold.get("exc") is None and cold.get("stop_crit") is not None \
                    and claims_convergence(s.solver_name, cold["stop_crit"], tol) and 2 <= work <= 20:
                props = ["C05"] + (["C19"] if degenerate else [])
                out.append(dict(prop=props, oracle="warm_liveness",
                                sig=sig0 + ("warm_start_exhausts_budget_where_cold_start_converges",),
                                detail=dict(stop_crit=res["stop_crit"], tol=tol,
                                            cold_stop_crit=cold["stop_crit"],
                                            cold_outer=(cold.get("seam") or {}).get("outer")),
                                feat=J.feat(res, dict(n_outer=(res.get("seam") or {}).get("outer")))))
    if op.get("twin_liveness") and not claimed and np.isfinite(res["stop_crit"]) \
            and s.dname in (None, "Quadratic", "QuadraticSVC") \
            and res["knobs"].get("ws_strategy", "subdiff") == "subdiff":
        out.extend(judge_twin_liveness(s, J, res, knobs, op, plan, tol))
    if op.get("liveness_scale") and not claimed and pr.pen.convex and gen.get("rho", 1) <= 0.9 \
            and quad_like and s.dname != "Huber" and s.solver_name != "GramCD" \
            and pr.n >= pr.p + (1 if res["fi"] else 0) + 1 \
            and bool(pr.absX.any(axis=0).all()) and np.isfinite(res["stop_crit"]):
        out.append(dict(prop=["C19"], oracle="liveness_scaled_column",
                        sig=sig0 + ("no_convergence_with_scaled_column",),
                        detail=dict(stop_crit=res["stop_crit"], tol=tol, knobs=knobs),
                        feat=J.feat(res, dict(n_outer=(res.get("seam") or {}).get("outer")))))
    # ---- C02: reference optimum
    if op.get("optimum", True) and claimed and pr.pen.convex:
        out.extend(judge_optimum(s, J, pr, res, w, b, tol, warm, op))
    # ---- C16: critical strength
    if op.get("critical", False):
        out.extend(judge_critical(s, J, pr, res, w, b, tol, claimed, plan))
    return out


def judge_twin_liveness(s, J, res, knobs, op, plan, tol):
    """C19 'never ... fails to terminate', relative form: the degenerate problem's null column
    (an all-zero feature, or - for the SVC dual - an all-zero sample) is decoupled from the rest,
    so a cold solve that exhausts the ample budget while the *twin problem without that
    column*, same knobs, converges within 20 outer iterations (GramCD: 1 000 epochs) has been
    slowed down by the degenerate structure itself."""
    import copy
    dg = plan["data"].get("degen") or {}
    X = np.asarray(plan["data"]["X"], dtype=float)
    y = np.asarray(plan["data"]["y"], dtype=float)
    if dg.get("kind") == "zero_row":
        i = dg.get("row")
        if i is None or X.shape[0] <= 2:
            return []
        X2, y2 = np.delete(X, i, axis=0), np.delete(y, i, axis=0)
        if len(np.unique(y2)) < 2:
            return []
    else:
        j = dg.get("col")
        if j is None or X.shape[1] <= 1 or np.any(X[:, j] != 0):
            return []
        X2, y2 = np.delete(X, j, axis=1), y
    tplan = copy.deepcopy(plan)
    tplan["data"] = dict(plan["data"], X=X2.tolist(), y=y2.tolist(), degen=None)
    tplan["family"] = copy.deepcopy(s.family)
    tplan["family"]["pargs"] = copy.deepcopy(s.pargs)
    if "sample_weights" in (tplan["family"].get("dargs") or {}):
        return []
    from .session import Session
    try:
        ts = Session(tplan)
        cold = ts.call_solver(knobs, "cold", None, None, op.get("storage", plan.get("storage", "F")), record=False)
    except Exception:
        return []
    s.probe("twin_liveness_compared")
    if cold.get("exc") is not None or cold.get("stop_crit") is None:
        return []
    quick = ((cold.get("seam") or {}).get("outer") or 0) <= 20 if s.solver_name != "GramCD" \
        else ((cold.get("seam") or {}).get("epochs") or 0) <= 1000
    if claims_convergence(s.solver_name, cold["stop_crit"], tol) and quick:
        return [dict(prop=["C19"], oracle="twin_liveness",
                     sig=(s.solver_name, s.dname, s.pname, "null_column_keeps_solver_from_converging"),
                     detail=dict(stop_crit=res["stop_crit"], tol=tol, twin_stop_crit=cold["stop_crit"],
                                 twin_outer=(cold.get("seam") or {}).get("outer")),
                     feat=J.feat(res, dict(n_outer=(res.get("seam") or {}).get("outer"))))]
    return []


def reference_witness(pr, hint=None):
    """A point with a known objective value (cached on the reference problem itself)."""
    if getattr(pr, "_witness", None) is None:
        wz, bz, Pz, _ = pr.reference_optimum(max_iter=6000)
        pr._witness = (wz, bz, Pz)
    wz, bz, Pz = pr._witness
    if hint is not None:
        # continue from the candidate as well: any point is a valid witness
        w2, b2, P2, _ = pr.reference_optimum(max_iter=1500, w_start=hint[0], b_start=hint[1])
        if P2 < Pz:
            wz, bz, Pz = w2, b2, P2
            pr._witness = (wz, bz, Pz)
    return wz, bz, Pz


def _cert_ratio(pr, w, b, tol):
    """Reference subdifferential violation of the returned point, in units of tol."""
    try:
        if pr.pen.kind == "vec":
            return None
        return float(pr.certificate(w, b, criterion="subdiff")["value"] / tol)
    except Exception:
        return None


def objective_margin(pr, w, b, dist, tol, crit, exact, Pref):
    """How far above the optimum may the objective of a point be whose stopping criterion is
    within tol?  (convex problems; dist = l1 distance to the witness optimum)

    subdifferential criterion (exact=True): P(w) - P* <= tol * dist  (convexity).
    fixed-point criterion: with u = prox-gradient image of w, ||w - u||_inf <= tol, the
    subgradient residual at u is at most (sum_j L_j + max L_j) * tol, and P(w) - P(u) <=
    G * p * tol with G the (measured) subgradient norm at w: an absolute term in tol.
    other criteria (FISTA, PDCD): a generous multiple plus a floor."""
    scale = pr.rounding_scale(w, b)
    rounding = 1e4 * EPS * scale * (1 + dist)
    if exact:
        return tol * dist * (1 + REL) + rounding
    Lc = pr.unit_lipschitz(w, b, mode="local")
    Lg = pr.unit_lipschitz(w, b, mode="global")      # the constants CD solvers step with
    if Lg is not None:
        Lc = np.maximum(Lc, Lg)
    Lsum, Lmax = float(np.sum(Lc)), float(np.max(Lc, initial=0.0))
    nunits = len(Lc)
    if crit == "fixpoint":
        try:
            G = float(pr.certificate(w, b, criterion="subdiff")["value"])
        except Exception:
            G = float("inf")
        if not np.isfinite(G):
            G = 1e6 * (1 + pr.pen.slope_scale())
        return tol * ((Lsum + Lmax + 1.0) * (dist + nunits * tol) + nunits * G) * (1 + REL) + rounding
    if crit == "pd_fixpoint":
        return pd_margin(pr, dist, tol) * (1 + REL) + rounding
    kappa = 50.0 * (1.0 + Lmax * pr.p)
    return kappa * tol * dist * (1 + REL) + 1e-7 * (1 + abs(Pref)) + rounding


def pd_margin(pr, dist, tol):
    """Primal-dual fixed-point criterion of PDCD_WS (steps tau_j = 1 / ||X_j||, sigma = 1 / ||X||_2;
    loss F Lipschitz, dual iterates in its bounded dual domain).  With u = prox image of w
    (|w - u|_inf <= tol) and z' = dual prox image (|z - z'|_inf <= tol):
        -X'z + e in d pen(u), |e_j| <= tol ||X_j||;   z' in dF(Xw + d), |d|_inf <= tol ||X||_2.
    Adding the two subgradient inequalities at the optimum w* gives
        P(w) - P* <= tol [ 2 N ||X||_2 + sum_j a_j + sum_j ||X_j||_1
                           + max_j ||X_j||_1 dist + max_j ||X_j||_2 (dist + p tol) ]
    with N = n for the pinball loss (|z|_inf <= 1), sqrt(n) for the square-root loss
    (|z|_2 <= 1) and a_j the l1 slopes."""
    X = pr.X
    n, p = X.shape
    N = float(n) if pr.loss.name == "Pinball" else float(np.sqrt(n))
    nx2 = float(np.linalg.norm(X, 2)) if X.size else 0.0
    col1 = np.abs(X).sum(axis=0)
    col2 = np.sqrt((X ** 2).sum(axis=0))
    slopes = float(sum(pr.pen._a(j) for j in range(p))) if hasattr(pr.pen, "_a") else \
        p * pr.pen.slope_scale()
    return tol * (2 * N * nx2 + slopes + float(col1.sum()) + float(col1.max(initial=0.0)) * dist
                  + float(col2.max(initial=0.0)) * (dist + p * tol))


def judge_optimum(s, J, pr, res, w, b, tol, warm, op):
    out = []
    wz, bz, Pz = reference_witness(pr, hint=(w, b))
    P = pr.objective(w, b)
    dist = float(np.sum(np.abs(w - wz)) + np.sum(np.abs(np.asarray(b) - np.asarray(bz))))
    crit = criterion_of(s.solver_name, res["knobs"])
    exact = crit == "subdiff" and s.solver_name in B.C01_SOLVERS
    margin = objective_margin(pr, w, b, dist, tol, crit, exact, Pz) \
        + J.drift_allow(pr, res, w, b) * (1 + dist)
    res["opt_gap"] = float(P - Pz)
    if P > Pz + margin:
        props = ["C02"] + (["C05"] if warm else [])
        out.append(dict(prop=props, oracle="reference_optimum",
                        sig=(s.solver_name, s.dname, s.pname, "above_reference_optimum"),
                        detail=dict(P=float(P), P_ref=float(Pz), margin=float(margin), tol=tol,
                                    dist=dist, stop_crit=res["stop_crit"]),
                        feat=J.feat(res, dict(gap=float(P - Pz), rel_gap=float((P - Pz) / (1 + abs(Pz))),
                                              has_zero_columns=bool((~pr.absX.any(axis=0)).any()),
                                              gap_over_margin=float((P - Pz) / margin) if margin > 0
                                              else float("inf"), criterion=crit,
                                              cert_ratio=_cert_ratio(pr, w, b, tol)))))
    return out


def judge_library_alpha_max(s, J, pr, res):
    """The library's own critical-strength helpers - ``penalty.alpha_max(gradient0)`` of L1,
    L1_plus_L2, WeightedL1, MCPenalty, WeightedMCPenalty and ``utils.data._alpha_max_group_lasso``
    - evaluated on the gradient at the null model (unpenalised part optimised by the reference
    model) must return the reference critical value: "the value computed from the gradient at
    the null model" is what the property's two clauses are stated about."""
    out = []
    if getattr(s, "_alpha_max_judged", False):
        return out
    s._alpha_max_judged = True
    try:
        base = B.rm_problem(s.data, s.family, dict(s.pargs, alpha=1.0), res["fi"])
        amax, (w0, b0) = base.alpha_max()
    except Exception:
        return out
    if not np.isfinite(amax) or amax <= 1e-12:
        return out
    g0, _ = base.grad(w0, b0)
    lib = None
    what = None
    try:
        if pr.pen.kind == "sep":
            penalty = s.get_penalty()
            if hasattr(penalty, "alpha_max"):
                lib = float(penalty.alpha_max(np.ascontiguousarray(g0, dtype=float)))
                what = s.pname + ".alpha_max"
        elif pr.pen.kind == "group" and s.dname == "QuadraticGroup" and not res["fi"] \
                and s.pname == "WeightedGroupL2" and not s.pargs.get("positive") \
                and np.all(np.asarray(s.pargs["weights"], dtype=float) > 0):
            from skglm.utils.data import _alpha_max_group_lasso
            lib = float(_alpha_max_group_lasso(
                np.asarray(s.data["X"], dtype=float), np.asarray(s.data["y"], dtype=float),
                np.asarray(s.pargs["grp_indices"], dtype=np.int32),
                np.asarray(s.pargs["grp_ptr"], dtype=np.int32),
                np.asarray(s.pargs["weights"], dtype=float)))
            what = "_alpha_max_group_lasso"
    except Exception as e:
        from .session import classify_exception
        exc = classify_exception(e)
        if exc.get("harness"):
            raise
        out.append(dict(prop=["C16"], oracle="library_alpha_max",
                        sig=(s.pname, "alpha_max_helper_crash", exc["type"]), detail=dict(exc=exc),
                        feat=J.feat(res, dict(exc_type=exc["type"]))))
        return out
    if lib is None:
        return out
    s.probe("library_alpha_max_compared")
    if not np.isfinite(lib) or abs(lib - amax) > 1e-9 * (1 + abs(amax)):
        out.append(dict(prop=["C16"], oracle="library_alpha_max",
                        sig=(s.pname, "alpha_max_helper_differs_from_critical_value"),
                        detail=dict(helper=what, returned=lib, critical=float(amax)),
                        feat=J.feat(res, dict(helper=what, ratio=float(lib / amax) if amax else None,
                                              l1_ratio=s.pargs.get("l1_ratio")))))
    return out


def judge_critical(s, J, pr, res, w, b, tol, claimed, plan):
    """C16: at alpha >= alpha_max(1 + 1e-9) a converged fit has exactly zero penalised
    coefficients and an optimal unpenalised part; slightly below, a non-zero coefficient."""
    out = []
    pen = pr.pen
    if not hasattr(pen, "alpha") or pen.name in ("IndicatorBox", "PositiveConstraint", "L2", "SLOPE",
                                                 "SCAD", "L0_5", "L2_3", "LogSumPenalty", "L2_05",
                                                 "BlockSCAD", "WeightedL1GroupL2"):
        return out
    out.extend(judge_library_alpha_max(s, J, pr, res))
    if not claimed:
        # "returns ... the optimal unpenalised part": above the critical strength the whole
        # problem is the fit of the intercept, which every solver finishes within the ample
        # budget of a quiescent cold start (one exact step for quadratic losses, Newton steps in
        # ProxNewton, gradient steps of a smooth 1-d problem otherwise) - demanded where the
        # design is well conditioned and everything else is penalised
        gen = plan["data"].get("gen") or {}
        amax_rm = plan["family"].get("alpha_max_rm") or 0.0
        frac = plan["family"].get("alpha_frac") or 0.0
        if (res["start"] in ("cold", "cold_buf") and frac >= 1.001 and pen.convex and amax_rm > 1e-8
                and bool(np.all(pen.penalized_mask(pr.p))) and not plan["data"].get("degen")
                and gen.get("rho", 1) <= 0.9 and gen.get("scale_decades", 9) <= 1.0
                and bool(pr.absX.any(axis=0).all()) and pr.n >= pr.p + 1
                and s.solver_name in ("AndersonCD", "ProxNewton", "GroupBCD", "GroupProxNewton",
                                      "MultiTaskBCD", "GramCD")
                # (AndersonCD / GroupBCD move the logistic intercept by gradient / 4 per epoch -
                # the step-size convention of the known finding - and need hundreds of outer
                # iterations; Huber's intercept step is bounded by delta)
                and (s.solver_name in ("ProxNewton", "GroupProxNewton")
                     or s.dname in ("Quadratic", "WeightedQuadratic", "QuadraticGroup",
                                    "QuadraticMultiTask"))
                and s.dname != "Huber" and tol >= 1e-6 * amax_rm and not (res.get("faults") or {}).get("aa")
                and np.all(np.isfinite(np.asarray(w))) and not np.any(np.asarray(w) != 0)):
            out.append(dict(prop=["C16"], oracle="null_model_reached",
                            sig=(s.solver_name, s.dname, s.pname, "null_model_not_reached"),
                            detail=dict(alpha=float(s.pargs["alpha"]), alpha_max=amax_rm,
                                        stop_crit=res["stop_crit"], tol=tol, intercept=np.asarray(b).tolist()),
                            feat=J.feat(res, dict(ratio=frac))))
        return out
    if getattr(pen, "positive", False) and not bool(np.all(pen.penalized_mask(pr.p))):
        return out   # the reference null fit does not handle constrained unpenalised features
    base = B.rm_problem(s.data, s.family, dict(s.pargs, alpha=1.0), res["fi"])
    amax, (w0, b0) = base.alpha_max()
    alpha = float(s.pargs["alpha"])
    sig0 = (s.solver_name, s.dname, s.pname)
    pmask = pen.penalized_mask(pr.p)
    wv = np.asarray(w)
    if pen.kind == "group":
        nz = [k for k in range(pen.units(pr.p)) if pmask[k] and np.any(wv[pen.unit_indices(k)] != 0)]
    else:
        nz = [int(j) for j in range(pr.p) if pmask[j] and np.any(wv[j] != 0)]
    if amax <= 1e-8 or tol < 1e-13:
        return out      # no critical strength to speak of (e.g. all-zero counts)
    crit = criterion_of(s.solver_name, res["knobs"])
    colmean = float(np.max(np.abs(pr.X.mean(axis=0)), initial=0.0))
    wts = np.asarray(getattr(pen, "weights", [1.0]), dtype=float)
    wmin = float(np.min(wts[wts > 0])) if np.any(wts > 0) else 1.0
    l1r = getattr(pen, "l1_ratio", 1.0) or 1.0
    gap = (alpha - amax) * wmin * l1r
    # When is *exactly* zero implied?  (i) the stopping test measures the distance to the
    # subdifferential and the gap alpha - alpha_max dominates the tolerance: a non-zero
    # penalised unit then has a violation of at least gap - O(tol) > tol; (ii) a cold start
    # with nothing unpenalised: the very first optimality test is evaluated at the null model.
    # (non-convex penalties have other stationary points above the critical value: only (ii))
    strong = crit == "subdiff" and gap >= 1e3 * tol * (1 + colmean) and pen.convex
    cold_exact = (res["start"] in ("cold", "cold_buf") and not res["fi"] and bool(np.all(pmask))
                  and s.solver_name != "LBFGS")
    # (iii) a cold start on exactly centred columns: for the quadratic and the logistic loss the
    # gradient with respect to the coefficients at w = 0 does not depend on the intercept, so
    # with the gap dominating rounding no coordinate update can move a coefficient away from
    # zero while the intercept is being fitted - also for the non-convex MCP family, at any gamma
    colsum = float(np.max(np.abs(pr.X.sum(axis=0)), initial=0.0))
    xscale = float(np.max(pr.absX, initial=0.0)) * pr.n + 1e-300
    cold_centred = (res["start"] in ("cold", "cold_buf") and bool(np.all(pmask))
                    and s.dname in ("Quadratic", "Logistic", "QuadraticMultiTask")
                    and colsum <= 1e-12 * xscale and alpha >= amax * (1 + 1e-4)
                    and s.solver_name in ("AndersonCD", "MultiTaskBCD", "GramCD")
                    and not (res.get("faults") or {}).get("aa"))
    if cold_centred and not res["fi"]:
        cold_exact = True
    if alpha >= amax * (1 + 1e-9):
        if nz and (strong or cold_exact or cold_centred):
            out.append(dict(prop=["C16"], oracle="null_above_critical",
                            sig=sig0 + ("nonzero_above_alpha_max",),
                            detail=dict(alpha=alpha, alpha_max=amax, nonzero_units=nz[:5], tol=tol,
                                        route="cold_exact" if cold_exact else
                                        ("cold_centred" if cold_centred and not strong else "gap")),
                            feat=J.feat(res, dict(ratio=alpha / amax))))
        elif not nz:
            # unpenalised part must be optimal: gradient of the loss w.r.t. it within tol
            ccrit = crit if crit in ("subdiff", "fixpoint") else "subdiff"
            cert = pr.certificate(w, b, criterion=ccrit,
                                  curv="local" if s.solver_name == "ProxNewton" else "global")
            bound = tol * (1 + REL) + cert["allowance"] + J.drift_allow(pr, res, w, b)
            if cert["value"] > bound and s.solver_name in B.C01_SOLVERS:
                out.append(dict(prop=["C16"], oracle="unpenalised_part_optimal",
                                sig=sig0 + ("null_model_unpenalised_part_suboptimal",),
                                detail=dict(alpha=alpha, alpha_max=amax, recomputed=cert["value"],
                                            intercept_part=cert["intercept_part"], tol=tol),
                                feat=J.feat(res, dict(ratio=alpha / amax,
                                                      intercept_ratio=cert["intercept_part"] / tol,
                                                      only_intercept=bool(cert["coef_part"] <= bound)))))
    elif alpha <= amax * (1 - 1e-3) and tol <= 1e-3 * (amax - alpha) * wmin * l1r / (1 + colmean) \
            and pen.convex and crit == "subdiff":
        if not nz:
            out.append(dict(prop=["C16"], oracle="nonzero_below_critical",
                            sig=sig0 + ("null_below_alpha_max",),
                            detail=dict(alpha=alpha, alpha_max=amax, tol=tol),
                            feat=J.feat(res, dict(ratio=alpha / amax,
                                                  cert_ratio=_cert_ratio(pr, w, b, tol)))))
    return out
