"""Oracles: evaluate the properties on what a simulated operation returned.

Every function returns a list of violation records

    dict(prop=[...ids...], oracle=<name>, sig=<hashable call-site signature>,
         detail={numbers}, feat={root-cause features for known-finding matchers})

A violation is attributed to every property id in ``prop``; each check keeps its own.
All reference quantities come from sim.refmodel (independent of skglm).
"""
import numpy as np

from . import binding as B

EPS = np.finfo(float).eps
REL = 1e-3          # relative slack on tolerance comparisons (soundness margin, see DESIGN 2.4)

REFUSAL_TYPES = ("AttributeError", "ValueError")


def _family_sig(s):
    return (s.solver_name, s.dname, s.pname)


def is_refusal(exc):
    """An explanatory refusal: AttributeError / ValueError raised by validation code or by a
    datafit's initialize, with a message that names what is missing / required."""
    if exc is None:
        return False
    if exc["type"] not in REFUSAL_TYPES:
        return False
    where = exc.get("where") or ""
    msg = exc.get("msg") or ""
    if not msg.strip():
        return False
    if msg == "SmallResidualException" and "sqrt_lasso.py" in where:
        return True      # documented data-dependent refusal of the square-root datafit
    ok_where = ("validation.py", "solvers/base.py", ":custom_checks", ":initialize",
                ":initialize_sparse", ":_validate", "utils/data.py")
    if any(t in where for t in ok_where):
        return True
    # a Python-level AttributeError of the solver that names the attribute the composition lacks
    if exc["type"] == "AttributeError" and "has no attribute" in msg and \
            (where.endswith(":_solve") or where.endswith(":solve") or where.endswith(":path")) \
            and "solvers/" in where or (exc["type"] == "AttributeError" and "has no attribute" in msg
                                        and "experimental/pdcd_ws.py" in where):
        return True
    # explicit raises at the top of _solve (w_init length, strategy names)
    if where.endswith(":_solve") and ("should be" in msg or "Unsupported" in msg
                                      or "must be" in msg or "expected" in msg.lower()):
        return True
    return False


def criterion_of(solver_name, knobs):
    if solver_name in ("AndersonCD", "ProxNewton", "GroupBCD", "MultiTaskBCD"):
        return knobs.get("ws_strategy", "subdiff")
    if solver_name == "FISTA":
        return knobs.get("opt_strategy", "subdiff")
    if solver_name == "PDCD_WS":
        return "pd_fixpoint"
    return "subdiff"


def claims_convergence(solver_name, stop_crit, tol):
    if not np.isfinite(stop_crit):
        return False
    if solver_name in B.STRICT_TOL:
        return stop_crit < tol
    return stop_crit <= tol


class Judge:
    """Holds the reference problem for the current hyper-parameters of a session."""

    def __init__(self, session):
        self.s = session
        self._cache = {}

    def problem(self, fi):
        key = (repr(sorted((k, repr(v)) for k, v in self.s.pargs.items())), bool(fi))
        if key not in self._cache:
            self._cache[key] = B.rm_problem(self.s.data, self.s.family, self.s.pargs, fi)
        return self._cache[key]

    # ------------------------------------------------------------------ helpers
    def feat(self, res, extra=None):
        s = self.s
        k = res["knobs"]
        f = dict(solver=s.solver_name, datafit=s.dname, penalty=s.pname, fi=res.get("fi"),
                 storage=res.get("storage"), start=res.get("start"),
                 max_iter=k.get("max_iter"), inner=k.get(B.INNER_BUDGET.get(s.solver_name, ""), None),
                 tol=k.get("tol"), p0=k.get("p0"), ws_strategy=k.get("ws_strategy"),
                 use_acc=k.get("use_acc"), greedy_cd=k.get("greedy_cd"),
                 positive=bool(s.pargs.get("positive", False)),
                 constrained=bool(s.pargs.get("positive", False))
                 or s.pname in ("IndicatorBox", "PositiveConstraint"),
                 zero_weights=bool(np.any(np.asarray(s.pargs.get("weights", [1.0])) == 0)),
                 degenerate=s.data.get("degen"), engine=s.plan.get("engine"),
                 interleaved_groups=("grp_indices" in s.pargs and
                                     list(s.pargs["grp_indices"]) != list(range(len(s.pargs["grp_indices"])))),
                 max_abs_c=(res.get("seam") or {}).get("max_abs_c", 0.0),
                 hist_max_abs_c=(res.get("seam") or {}).get("hist_max_abs_c", 0.0),
                 aa_faults=bool(((res.get("faults") or {}).get("aa"))),
                 ls_exhausted=bool((res.get("seam") or {}).get("ls_exhausted")),
                 infeasible_start=bool(res.get("infeasible_start")),
                 )
        if extra:
            f.update(extra)
        return f

    def split(self, res):
        pr = self.problem(res["fi"])
        w, b = pr.split(res["w"])
        return pr, w, b

    def drift_allow(self, pr, res, w, b):
        # extrapolating with coefficients c_k (sum 1) multiplies rounding errors by sum |c_k|;
        # the buffers carry that error from one call to the next
        se = res.get("seam") or {}
        c = max(se.get("max_abs_c", 0.0) or 0.0, se.get("hist_max_abs_c", 0.0) or 0.0)
        return 100 * EPS * c * pr.rounding_scale(w, b)

    # ------------------------------------------------------------------ per-result oracles
    def judge_result(self, res, ctx):
        """ctx: dict(warm=bool, degenerate=bool, check=<id>)"""
        out = []
        s = self.s
        sig0 = _family_sig(s)
        if res["exc"] is not None and res["exc"].get("interrupted"):
            # killed part-way (F-INTERRUPT): nothing was returned.  What survives is the
            # caller's buffer pair; whether it is a consistent (w, X w + b) pair is recorded as
            # a probe (no property constrains the buffers at an interruption) and decides how
            # the client restarts: from the pair as it is, or with the model fit recomputed.
            res["outcome"] = "interrupted"
            s.probe("solve_interrupted")
            if res.get("w_buf") is not None and res.get("Xw_buf") is not None:
                try:
                    pr = self.problem(res["fi"])
                    w, b = pr.split(res["w_buf"])
                    fit = pr.predictor(w, b)
                    ok = pr.finite(w, b) and np.shape(fit) == np.shape(res["Xw_buf"]) and \
                        float(np.max(np.abs(fit - res["Xw_buf"]))) <= 1e-9 * (1.0 + float(np.max(np.abs(fit))))
                except Exception:
                    ok = False
                res["buffers_consistent"] = bool(ok)
                s.probe("interrupt_buffers_consistent" if ok else "interrupt_buffers_inconsistent")
            return out
        if res["exc"] is not None:
            exc = res["exc"]
            if exc.get("harness"):
                raise RuntimeError(f"harness error: {exc}")
            if is_refusal(exc):
                res["outcome"] = "refused"
                return out
            res["outcome"] = "crashed"
            props = ["C13"]
            if ctx.get("degenerate"):
                props.append("C19")
            if exc["type"] in ("IndexError",) or "out of bounds" in exc["msg"]:
                props.append("C20")
            out.append(dict(prop=props, oracle="crash",
                            sig=sig0 + ("crash", exc["type"], exc.get("where")),
                            detail=dict(exc=exc), feat=self.feat(res, dict(exc_type=exc["type"],
                                                                            where=exc.get("where")))))
            return out
        res["outcome"] = "solved"
        try:
            pr, w, b = self.split(res)
        except Exception as e:
            # the reference model cannot even form this composition (structure mismatch that
            # skglm accepted): only finiteness can be judged
            res["unmodelled"] = repr(e)[:200]
            wv = np.asarray(res["w"], dtype=float)
            if not (np.all(np.isfinite(wv)) and np.all(np.isfinite(res["obj_out"]))):
                out.append(dict(prop=["C13"], oracle="finite", sig=sig0 + ("nonfinite",),
                                detail=dict(unmodelled=True), feat=self.feat(res)))
            return out
        knobs = res["knobs"]
        tol = knobs.get("tol", 1e-4)
        # (largest iterate the session's in-place buffers have passed through: see _certificate)
        try:
            for cand in (res.get("w_start"), res.get("w")):
                if cand is not None:
                    wc_, bc_ = pr.split(cand)
                    if pr.finite(wc_, bc_):
                        s.max_scale = max(getattr(s, "max_scale", 0.0), pr.rounding_scale(wc_, bc_))
        except Exception:
            pass
        finite = pr.finite(w, b) and np.all(np.isfinite(res["obj_out"])) \
            and not np.isnan(res["stop_crit"])
        if not finite:
            props = ["C13"]
            if pr.pen.has_constraint:
                props.append("C04")
            if ctx.get("degenerate"):
                props.append("C19")
            out.append(dict(prop=props, oracle="finite", sig=sig0 + ("nonfinite",),
                            detail=dict(w_finite=bool(pr.finite(w, b)),
                                        obj_finite=bool(np.all(np.isfinite(res["obj_out"])))),
                            feat=self.feat(res)))
            if not pr.finite(w, b):
                return out
        # ---- C04 feasibility (exact)
        # (a call that performed no iteration - the first optimality test passed, which the
        # fixed-point score allows for an infeasible point within tol of its projection -
        # returns the caller's own vector: not a vector the solver produced)
        no_work = bool(res.get("infeasible_start")) and not (res.get("seam") or {}).get("outer") \
            and not (res.get("seam") or {}).get("epochs") and not len(res["obj_out"])
        if no_work:
            # ... which only the fixed-point score can do (the distance to the subdifferential
            # is infinite at an infeasible point), and only for a point within tol of the set
            wv_ = np.asarray(w, dtype=float)
            hi = float(pr.pen.alpha) if pr.pen.name == "IndicatorBox" else np.inf
            excess = float(np.max(np.maximum(np.maximum(-wv_, wv_ - hi), 0.0), initial=0.0))
            no_work = criterion_of(s.solver_name, knobs) == "fixpoint" and excess <= tol * (1 + REL)
        if pr.pen.has_constraint and not pr.pen.feasible(w) and not no_work:
            wv = np.asarray(w)
            out.append(dict(prop=["C04"], oracle="feasible", sig=sig0 + ("infeasible",),
                            detail=dict(min=float(wv.min()), max=float(wv.max()),
                                        stop_crit=res["stop_crit"]),
                            feat=self.feat(res)))
        # ---- C01 / C05a / C13 / C19 certificate
        claimed = claims_convergence(s.solver_name, res["stop_crit"], tol)
        res["claimed"] = bool(claimed)
        # ---- C19 exact zero on all-zero columns (of a result that claims convergence: an
        # exhausted budget may legitimately return the caller's start point)
        if ctx.get("degenerate") and claimed:
            out.extend(self._zero_columns(pr, res, w, tol, criterion_of(s.solver_name, knobs)))
        crit = criterion_of(s.solver_name, knobs)
        if claimed and crit in ("subdiff", "fixpoint") and pr.pen.kind != "vec" \
                and s.solver_name in B.C01_SOLVERS:
            out.extend(self._certificate(pr, res, w, b, tol, crit, ctx))
        # ---- C05b buffers
        out.extend(self._buffers(pr, res, w, b, ctx))
        # ---- C17 diagnostics
        out.extend(self._diagnostics(pr, res, w, b, tol, crit, claimed, ctx))
        return out

    def _zero_columns(self, pr, res, w, tol, crit="subdiff"):
        """A penalised coefficient on an all-zero column must be exactly zero in a result that
        claims convergence -- wherever leaving it non-zero breaks stationarity by more than the
        tolerance (with a penalty slope below tol the start value is itself tol-stationary)."""
        out = []
        zero_cols = np.where(~pr.absX.any(axis=0))[0]
        if len(zero_cols) == 0:
            return out
        pmask = pr.pen.penalized_mask(pr.p)
        wv = np.asarray(w)
        bad = []
        if pr.pen.kind == "group":
            for k in range(pr.pen.units(pr.p)):
                idx = pr.pen.unit_indices(k)
                if pmask[k] and not pr.absX[:, idx].any() and np.any(wv[idx] != 0):
                    if pr.pen.subdiff_dist(wv, np.zeros_like(wv))[k] > tol * (1 + REL) and \
                            (crit != "fixpoint" or np.linalg.norm(wv[idx]) > tol * (1 + REL)):
                        bad.append(int(k))
        elif pr.pen.kind in ("sep", "row"):
            if pr.pen.name in ("IndicatorBox", "PositiveConstraint", "L2"):
                return out
            zero_g = np.zeros_like(wv)
            dist0 = pr.pen.subdiff_dist(wv, zero_g)
            for j in zero_cols:
                # under the fixed-point criterion a coefficient smaller than tol is within
                # tol of its fixed point (0)
                if pmask[j] and np.any(wv[j] != 0) and dist0[j] > tol * (1 + REL) and \
                        (crit != "fixpoint" or np.linalg.norm(np.atleast_1d(wv[j])) > tol * (1 + REL)):
                    bad.append(int(j))
        if bad:
            out.append(dict(prop=["C19"], oracle="zero_column",
                            sig=_family_sig(self.s) + ("zero_column_nonzero_coef",),
                            detail=dict(units=bad[:5]),
                            feat=self.feat(res, dict(criterion=criterion_of(self.s.solver_name,
                                                                             res["knobs"])))))
        return out

    def _certificate(self, pr, res, w, b, tol, crit, ctx):
        s = self.s
        out = []
        if pr.pen.kind == "vec":
            g, _ = pr.grad(w, b)
            Lg = pr.global_lipschitz()
            val = float(np.max(pr.pen.fixpoint_res_vec(w, g, Lg)))
            cert = dict(value=val, coef_part=val, intercept_part=0.0,
                        allowance=1e4 * EPS * pr.rounding_scale(w, b) / min(Lg, 1.0))
        else:
            curv = "local" if s.solver_name == "ProxNewton" else "global"
            cert = pr.certificate(w, b, criterion=crit, curv=curv)
        allow = cert["allowance"] + self.drift_allow(pr, res, w, b)
        # the solver's gradient comes from a model fit that was updated in place all the way from
        # the start point of this session: its rounding error is relative to the *largest* iterate
        # it passed through, not to the returned one (a start point with mass on a column of scale
        # 1e9, projected back to ~0, leaves 1e-8 in the buffer - and 1e-8 x 1e9 in the gradient)
        try:
            sc_now = pr.rounding_scale(w, b)
            if getattr(s, "max_scale", 0.0) > sc_now > 0:
                allow += cert["allowance"] * (s.max_scale / sc_now - 1.0)
        except Exception:
            pass
        bound = tol * (1 + REL) + allow
        res["cert"] = cert["value"]
        res["cert_full"] = dict(value=float(cert["value"]), coef_part=float(cert["coef_part"]),
                                intercept_part=float(cert["intercept_part"]), allow=float(allow))
        if cert["value"] <= bound:
            return out
        props = []
        if s.solver_name in B.C01_SOLVERS:
            props.append("C01")
        if ctx.get("warm") and s.solver_name in B.C01_SOLVERS:
            props.append("C05")
        props.append("C13")
        if ctx.get("degenerate"):
            props.append("C19")
        # root-cause features
        only_intercept = cert["coef_part"] <= bound < cert["intercept_part"]
        # do all offending units sit on all-zero columns / groups?
        bad_units = np.where(np.asarray(cert["per_unit"]) > bound)[0]
        only_zero_cols = False
        if len(bad_units) and cert["intercept_part"] <= bound:
            only_zero_cols = all(not pr.absX[:, pr.pen.unit_indices(int(k), pr.p)].any()
                                 for k in bad_units)
        cert_buf = None
        drift = None
        if res.get("Xw_buf") is not None and res.get("same_object") and not pr.multitask \
                and np.shape(res["Xw_buf"]) == (pr.n,):
            drift = float(np.max(np.abs(res["Xw_buf"] - pr.predictor(w, b))))
        sub = "intercept_only" if only_intercept else "coef"
        out.append(dict(
            prop=props, oracle="certificate", sig=_family_sig(s) + ("certificate", crit, sub),
            detail=dict(stop_crit=res["stop_crit"], tol=tol, recomputed=cert["value"],
                        coef_part=cert["coef_part"], intercept_part=cert["intercept_part"],
                        allowance=allow, buffer_drift=drift),
            feat=self.feat(res, dict(criterion=crit, only_intercept=bool(only_intercept),
                                     only_zero_columns=bool(only_zero_cols),
                                     ratio=cert["value"] / tol if tol > 0 else float("inf"),
                                     intercept_ratio=cert["intercept_part"] / tol if tol > 0 else 0.0,
                                     buffer_drift=drift, cert_buf=cert_buf,
                                     n_outer=(res.get("seam") or {}).get("outer")))))
        return out

    def _buffers(self, pr, res, w, b, ctx):
        s = self.s
        out = []
        if res.get("Xw_buf") is None or res["start"] == "cold":
            return out
        if s.solver_name in B.RETURNS_CALLER_W and s.solver_name != "GramCD":
            if not res.get("same_object"):
                # the solver did not hand back the caller's coefficient array: then the pair the
                # caller still holds must be a consistent (w, X w + b) pair too - a solver that
                # iterates on a copy of w_init while updating Xw_init in place leaves the caller
                # with the start point and the model fit of the solution (round 5)
                if res.get("w_buf") is None:
                    return out
                try:
                    wb, bb = pr.split(res["w_buf"])
                    fit_b = pr.predictor(wb, bb)
                except Exception:
                    return out
                if np.shape(res["Xw_buf"]) == np.shape(fit_b) and pr.finite(wb, bb):
                    err_b = float(np.max(np.abs(res["Xw_buf"] - fit_b)))
                    scale_b = float(np.max(pr.absX @ np.abs(wb)) + np.max(np.abs(bb)) + 1.0)
                    if err_b > 1e-9 * scale_b:
                        out.append(dict(prop=["C05"], oracle="buffer_pair",
                                        sig=_family_sig(s) + ("caller_buffers_not_a_pair",),
                                        detail=dict(err=err_b),
                                        feat=self.feat(res, dict(err=err_b, rel=err_b / scale_b))))
                return out
            fit = pr.predictor(w, b)
            if np.shape(res["Xw_buf"]) != np.shape(fit):
                return out
            err = float(np.max(np.abs(res["Xw_buf"] - fit)))
            scale = float(np.max(pr.absX @ np.abs(w)) + np.max(np.abs(b)) + 1.0) \
                if not pr.multitask else float(np.max(pr.absX @ np.abs(w)) + np.max(np.abs(b)) + 1.0)
            n_updates = max((res.get("seam") or {}).get("epochs", 0), 1) * pr.p
            if s.solver_name == "PDCD_WS":   # its epochs are not behind a counting seam
                n_updates = max(res["knobs"].get("max_iter", 1), 1) * \
                    max(res["knobs"].get("max_epochs", 1), 1) * pr.p
            se = res.get("seam") or {}
            cmax = max(se.get("max_abs_c", 0.0) or 0.0, se.get("hist_max_abs_c", 0.0) or 0.0)
            # rounding of the in-place updates: a random-walk term plus a quarter ulp of
            # systematic drift per update (runs that burn a 300 x 3000-epoch budget on an
            # unreachable tolerance perform 1e7 updates; observed 6.6e-10 on values of size 4)
            allow = EPS * scale * (1e4 + 10 * np.sqrt(n_updates) + 0.25 * n_updates) \
                + 100 * EPS * cmax * scale
            if s.solver_name == "PDCD_WS":
                # up to 1e6 in-place updates whose count is not observable: a relative 1e-7
                allow = max(allow, 1e-7 * scale)
            # the in-place model fit passes through intermediate iterates that can be orders of
            # magnitude larger than the final one (line searches, unpenalised features running
            # off and coming back): rounding is relative to *their* size.  Observed on the
            # unchanged tree at thorough depth: up to 9e-10 of the final scale.  A lost or
            # misapplied update is 1e-3 or more.
            allow = max(allow, 1e-8 * scale)
            res["buf_err"] = err
            if err > allow:
                out.append(dict(prop=["C05"], oracle="buffer",
                                sig=_family_sig(s) + ("buffer_inconsistent",),
                                detail=dict(err=err, allowance=allow),
                                feat=self.feat(res, dict(err=err, rel=err / scale))))
        elif s.solver_name in ("FISTA", "LBFGS"):
            # work on copies / build a new vector: the caller's arrays must be untouched
            if res.get("w_buf") is not None and res.get("w_start") is not None:
                if not (np.array_equal(res["w_buf"], res["w_start"])):
                    out.append(dict(prop=["C05"], oracle="buffer_untouched",
                                    sig=_family_sig(s) + ("caller_w_modified",),
                                    detail={}, feat=self.feat(res)))
        return out

    def _diagnostics(self, pr, res, w, b, tol, crit, claimed, ctx):
        s = self.s
        out = []
        obj_out = res["obj_out"]
        seam = res.get("seam") or {}
        # (a) one entry per outer iteration performed
        expected = None
        if s.solver_name in ("AndersonCD", "ProxNewton", "GroupBCD", "GroupProxNewton",
                             "MultiTaskBCD", "PDCD_WS"):
            if not any("argpartition" in m for m in s.seam_missing):
                expected = seam.get("outer")
        elif s.solver_name == "GramCD":
            if not s.seam_missing:
                expected = seam.get("epochs")
        if expected is not None and len(obj_out) != expected:
            out.append(dict(prop=["C17"], oracle="history_length",
                            sig=_family_sig(s) + ("history_length",),
                            detail=dict(len=len(obj_out), performed=expected,
                                        max_iter=res["knobs"].get("max_iter")),
                            feat=self.feat(res, dict(len=len(obj_out), performed=expected))))
        # (b) last entry = true objective of the returned point
        if len(obj_out) and (expected is None or len(obj_out) == expected) and \
                np.all(np.isfinite(obj_out)):
            true_obj = pr.objective(w, b)
            if np.isfinite(true_obj):
                const = 0.0
                if s.dname == "Gamma":
                    # Gamma.value differs from its documented formula by a constant
                    # (pure-function matter, C06, not claimed): compare up to it
                    const = (1.0 - 1.0 / pr.n)
                scale = pr.rounding_scale(w, b)
                allow = 1e-7 * (1 + abs(true_obj)) + 1e4 * EPS * scale + self.drift_allow(pr, res, w, b)
                diff = abs(obj_out[-1] - true_obj - const)
                if diff > allow and abs(obj_out[-1] - true_obj) > allow:
                    out.append(dict(prop=["C17"], oracle="last_objective",
                                    sig=_family_sig(s) + ("last_objective",),
                                    detail=dict(reported=float(obj_out[-1]), true=float(true_obj),
                                                diff=float(diff)),
                                    feat=self.feat(res, dict(diff=float(diff)))))
        # (c) on a tolerance stop, stop_crit is the violation of the returned point
        # (cert <= tol is C01's matter; here the *number* returned is compared with the violation
        # recomputed from scratch.  Only the subdifferential criterion involves no step-size
        # constants, so only there are the two numbers the same quantity; a factor 2 plus the
        # rounding / drift allowance separates "understated" from rounding.)
        cf = res.get("cert_full")
        # (as extended in round 3: also under the fixed-point criterion, where the reference
        # residual is evaluated with the reference model's own step constants - the curvature at
        # the returned point for ProxNewton, the documented global constants otherwise - so a
        # solver that scores with stale or foreign step sizes is seen; same factor 2)
        if claimed and cf is not None and crit in ("subdiff", "fixpoint") \
                and s.solver_name in B.C01_SOLVERS and np.isfinite(res["stop_crit"]) \
                and (crit == "subdiff" or pr.pen.kind != "vec"):
            sc = max(float(res["stop_crit"]), 0.0)
            # (the solver's number is computed from its in-place model fit, which a line search
            # with a huge trial step or a column of scale 1e6 leaves off X w by far more than
            # eps - observed 4e-9, i.e. 2e-5 on the gradient: a discrepancy below 5 % of the
            # tolerance the number is compared with is not held against it)
            lim = 2.0 * sc * (1 + REL) + cf["allow"] + 0.05 * tol
            if cf["value"] > lim:
                only_intercept = cf["coef_part"] <= lim < cf["intercept_part"]
                out.append(dict(prop=["C17"], oracle="stop_value",
                                sig=_family_sig(s) + ("stop_value_understates_violation",
                                                      "intercept_only" if only_intercept else "coef"),
                                detail=dict(stop_crit=sc, recomputed=cf["value"], tol=tol,
                                            coef_part=cf["coef_part"],
                                            intercept_part=cf["intercept_part"], allowance=cf["allow"]),
                                feat=self.feat(res, dict(
                                    criterion=crit, only_intercept=bool(only_intercept),
                                    intercept_over_stop=(cf["intercept_part"] / sc) if sc > 0 else float("inf"),
                                    n_outer=(res.get("seam") or {}).get("outer")))))
        return out

    # ------------------------------------------------------------------ chains (C03)
    def objective_of(self, res):
        if res["exc"] is not None or res.get("w") is None:
            return None
        pr, w, b = self.split(res)
        if not pr.finite(w, b):
            return float("inf")
        return pr.objective(w, b)

    def start_objective(self, res):
        pr = self.problem(res["fi"])
        w, b = pr.split(res["w_start"])
        return pr.objective(w, b)
