"""C09: step-size constants under every draw of the hidden generator.

For sparse input the global / group constants are random variables: the power method in
``spectral_norm`` starts from ``np.random.randn`` inside compiled code.  The simulator owns
that generator (sim.env.seed_rng); one plan = one seeded sparse matrix x many generator
seeds.  Oracle: never above the true value (dense SVD, reference model), not below it by
more than the slack of a Rayleigh quotient started from a Gaussian vector; sparse and dense
variants agree.  By-product (deterministic evaluation, labelled as such): dense constants and
raw_hessian against the reference model's curvature.
"""
import time
import hashlib
import numpy as np
import scipy.sparse as sp

from . import env
from . import gen as G
from .gen import choice
from .refmodel import losses as L_
from .session import classify_exception

LOWER_SLACK = 0.05      # Gaussian start: the Rayleigh quotient after <= 100 iterations
UPPER_REL = 1e-9


def make_plan(seed, run, engine, tier="quick"):
    rng = G.rng_for(seed, "C09", run)
    n, p = int(rng.integers(2, 18)), int(rng.integers(1, 12))
    kind = choice(rng, ["generic", "low_rank", "clustered", "tiny_scale", "huge_scale", "zero_cols",
                        "one_col", "annihilated", "mixed_scales"])
    if kind == "one_col":
        p = 1
    X, info = G.gen_X(rng, n, p, density=choice(rng, [1.0, 0.6, 0.3]), scale_decades=0.5)
    if kind == "low_rank" and p >= 2:
        r = int(rng.integers(1, min(n, p)))
        U = rng.standard_normal((n, r))
        V = rng.standard_normal((r, p))
        X = G.sig3(U @ V, 5) * (rng.random((n, p)) < 0.8)
    elif kind == "clustered" and min(n, p) >= 2:
        U, _, Vt = np.linalg.svd(rng.standard_normal((n, p)), full_matrices=False)
        k = len(_)
        sv = np.ones(k)
        sv[:2] = [1.0, 1.0 - 10.0 ** (-int(rng.integers(1, 6)))]
        sv[2:] = rng.uniform(0.0, 0.5, max(k - 2, 0))
        X = G.sig3((U * sv) @ Vt, 8)
    elif kind == "tiny_scale":
        X = X * 10.0 ** (-int(rng.integers(4, 9)))
    elif kind == "huge_scale":
        X = X * 10.0 ** int(rng.integers(3, 7))
    elif kind == "zero_cols":
        X[:, rng.random(p) < 0.4] = 0.0
    elif kind == "mixed_scales":
        # columns on widely different scales, small ones stored after large ones and vice versa:
        # a per-column constant computed through sums over the *whole* stored data loses the
        # small columns to cancellation (round 3, DESIGN section 9)
        X = G.sig3(X * 10.0 ** rng.integers(-6, 7, size=p).astype(float), 5)
    elif kind == "annihilated":
        # structured designs whose columns are *exactly* orthogonal to a simple fixed vector
        # (centred integer data: zero column sums; an empty first / last row; balanced
        # alternating contrasts): harmless for a random start vector, fatal for a fixed one
        Xi = rng.integers(-4, 5, size=(n, p)).astype(float) * (rng.random((n, p)) < 0.8)
        v = choice(rng, ["ones", "first", "last", "alternating"])
        if v == "ones":
            Xi[-1] = -Xi[:-1].sum(axis=0)
        elif v == "first":
            Xi[0] = 0.0
        elif v == "last":
            Xi[-1] = 0.0
        else:
            sgn = (-1.0) ** np.arange(n)
            Xi[-1] = -sgn[-1] * (sgn[:-1, None] * Xi[:-1]).sum(axis=0)
        X = Xi * 2.0 ** int(rng.integers(-3, 3))
    ptr, idx = G.gen_groups(rng, p)
    n_seeds = 64 if tier == "quick" else 256
    data = dict(X=np.asarray(X).tolist(), kind="reg", degen=None, gen=dict(kind=kind))
    return dict(check="C09", level="rng", seed=int(seed), run=int(run), engine=engine,
                rng_seed=int(rng.integers(1 << 31)), data=data, grp_ptr=ptr, grp_indices=idx,
                sample_weights=_sample_weights(rng, n),
                y=G.sig3(rng.standard_normal(n), 4).tolist(),
                rng_draws=[int(x) for x in rng.integers(1 << 31, size=n_seeds)],
                adversarial=[float(10.0 ** (-e)) for e in (3, 5, 8)],
                family=dict(solver="rng", datafit=None, penalty=None), storage="csc")


def _sample_weights(rng, n):
    """Sample weights; in a third of the plans some are exactly zero (resampling counts): an
    accessor that rescales the caller's arrays in place and back turns their rows into 0 / 0."""
    sw = G.sig3(rng.uniform(0.2, 3.0, n), 3)
    if n >= 3 and rng.random() < 0.35:
        sw[rng.choice(n, int(rng.integers(1, max(2, n // 3 + 1))), replace=False)] = 0.0
    # (the datafit normalises by the weight sum: weights that sum to 1 or to far less than n
    # separate it from a normalisation by the sample count)
    scale = G.choice(rng, [1.0, 1.0 / max(float(sw.sum()), 1e-3), 0.05], p=[.5, .3, .2])
    return G.sig3(sw * scale, 3).tolist()


def _true(X):
    return float(np.linalg.norm(X, ord=2) ** 2) if X.size else 0.0


def _second(X):
    """Square of the second singular value (the value a power iteration started almost
    orthogonally to the leading direction may legitimately return), or of the first."""
    if not X.size:
        return 0.0
    sv = np.linalg.svd(X, compute_uv=False)
    return float(sv[1] ** 2) if len(sv) > 1 and sv[1] > 0 else float(sv[0] ** 2)


def run_plan(plan):
    t0 = time.time()
    from skglm.datafits import (Quadratic, WeightedQuadratic, Logistic, Huber, QuadraticSVC, Cox,
                                QuadraticGroup, LogisticGroup, Poisson, Gamma)
    from skglm.utils.jit_compilation import compiled_clone
    from skglm.utils.sparse_ops import spectral_norm
    import skglm.utils.sparse_ops as sops
    X = np.array(plan["data"]["X"], dtype=float)
    n, p = X.shape
    y = np.array(plan["y"], dtype=float)
    ybin = np.where(y > 0, 1.0, -1.0)
    sw = np.array(plan["sample_weights"], dtype=float)
    Xc = sp.csc_matrix(X)
    Xc = sp.csc_matrix((Xc.data, Xc.indices.astype(np.int32), Xc.indptr.astype(np.int32)), shape=Xc.shape)
    ptr = np.array(plan["grp_ptr"], dtype=np.int32)
    idx = np.array(plan["grp_indices"], dtype=np.int32)
    tm = np.abs(y) + 0.1
    ysurv = np.column_stack([tm, (np.arange(n) % 3 != 0).astype(float)])
    ysurv[0, 1] = 1.0
    violations = []
    log = hashlib.sha256()
    probes = {}
    counts = dict(solved=0, refused=0, crashed=0, claimed=0, stops=0)
    worst = dict(rel_below=0.0)

    def add(oracle, sig, detail, feat):
        violations.append(dict(prop=["C09"], oracle=oracle, sig=tuple(sig), detail=detail, feat=feat, op=0))

    L2 = _true(X)
    r2 = (_second(X) / L2) if L2 > 0 else 1.0
    Xs = X * np.sqrt(sw)[:, None]
    r2w = (_second(Xs) / _true(Xs)) if _true(Xs) > 0 else 1.0
    yXT = (X * ybin[:, None]).T
    yXTc = sp.csc_matrix(yXT)
    yXTc = sp.csc_matrix((yXTc.data, yXTc.indices.astype(np.int32), yXTc.indptr.astype(np.int32)),
                         shape=yXTc.shape)
    cases = [
        ("Quadratic", compiled_clone(Quadratic()), Xc, X, y, L2 / n),
        ("Logistic", compiled_clone(Logistic()), Xc, X, ybin, L2 / (4 * n)),
        ("Huber", compiled_clone(Huber(1.0)), Xc, X, y, L2 / n),
        ("WeightedQuadratic", compiled_clone(WeightedQuadratic(sw)), Xc, X, y,
         _true(X * np.sqrt(sw)[:, None]) / sw.sum()),
        ("Cox", compiled_clone(Cox(False)), Xc, X, ysurv, ysurv[:, 1].sum() * L2 / n),
    ]
    if yXTc.nnz:
        cases.append(("QuadraticSVC", compiled_clone(QuadraticSVC()), yXTc, yXT, ybin, _true(yXT)))
    gq = compiled_clone(QuadraticGroup(ptr, idx))
    group_true = np.array([_true(X[:, idx[ptr[g]:ptr[g + 1]]]) / n for g in range(len(ptr) - 1)])
    group_r2 = [(_second(X[:, idx[ptr[g]:ptr[g + 1]]]) / n / group_true[g]) if group_true[g] > 0 else 1.0
                for g in range(len(ptr) - 1)]

    series = {}

    def check_value(name, val, truth, draw, what, ratio2=1.0):
        series.setdefault((name, what, float(truth)), []).append(float(val))
        log.update(np.float64(val).tobytes())
        counts["solved"] += 1
        scale = max(truth, 0.0)
        if not np.isfinite(val):
            add("finite", (name, what, "nonfinite"), dict(draw=draw), dict(datafit=name, what=what))
            return
        if val > truth * (1 + UPPER_REL) + 1e-300:
            add("upper_bound", (name, what, "above_true_value"),
                dict(value=float(val), true=float(truth), draw=draw),
                dict(datafit=name, what=what, rel=float(val / truth - 1) if truth else float("inf"),
                     kind=plan["data"]["gen"]["kind"]))
        elif val < truth * min(1.0, ratio2) * (1 - LOWER_SLACK):
            add("lower_bound", (name, what, "far_below_true_value"),
                dict(value=float(val), true=float(truth), draw=draw),
                dict(datafit=name, what=what, rel=float(1 - val / truth) if truth else 0.0,
                     kind=plan["data"]["gen"]["kind"]))
        if scale > 0:
            worst["rel_below"] = max(worst["rel_below"], float(1 - val / scale))

    # ---- the RNG seam: every draw of the hidden generator
    for draw in plan["rng_draws"]:
        for name, df, Mc, Md, yy, truth in cases:
            env.seed_rng(draw)
            try:
                val = df.get_global_lipschitz_sparse(Mc.data, Mc.indptr, Mc.indices, yy)
            except Exception as e:
                exc = classify_exception(e)
                if exc.get("harness"):
                    raise
                counts["crashed"] += 1
                add("crash", (name, "global_sparse", "crash", exc["type"]), dict(exc=exc),
                    dict(datafit=name, exc_type=exc["type"]))
                continue
            check_value(name, val, truth, draw, "global_sparse",
                        r2w if name == "WeightedQuadratic" else r2)   # sign flips keep the singular values
        env.seed_rng(draw)
        try:
            gl = gq.get_lipschitz_sparse(Xc.data, Xc.indptr, Xc.indices, y)
            for g in range(len(ptr) - 1):
                check_value("QuadraticGroup", gl[g], group_true[g], draw, "group_sparse", group_r2[g])
        except Exception as e:
            exc = classify_exception(e)
            if exc.get("harness"):
                raise
            counts["crashed"] += 1
            add("crash", ("QuadraticGroup", "group_sparse", "crash", exc["type"]), dict(exc=exc),
                dict(datafit="QuadraticGroup", exc_type=exc["type"]))
        env.seed_rng(draw)
        sn = spectral_norm(Xc.data, Xc.indptr, Xc.indices, n)
        check_value("spectral_norm", sn ** 2, L2, draw, "spectral_norm_squared", r2)
        probes["rng_draws"] = probes.get("rng_draws", 0) + 1
    # over the draws of one matrix the typical value must be the leading one
    for (name, what, truth), vals in series.items():
        if truth > 0 and len(vals) >= 8 and np.median(vals) < truth * (1 - LOWER_SLACK):
            add("lower_bound_median", (name, what, "median_far_below_true_value"),
                dict(median=float(np.median(vals)), true=float(truth)),
                dict(datafit=name, what=what, kind=plan["data"]["gen"]["kind"]))
    # ---- twin only: adversarial start vectors (small component on the leading direction).
    # Only "never above the true value" is demanded of them.
    if env.engine() == "twin" and min(n, p) >= 2 and L2 > 0:
        U, s, _ = np.linalg.svd(X, full_matrices=False)
        lead = U[:, 0]
        orig = sops.np.random.randn
        for eps in plan["adversarial"]:
            rs = np.random.RandomState(int(plan["rng_seed"]) % (2 ** 31))

            def fake_randn(m, eps=eps, rs=rs):
                v = rs.standard_normal(m)
                v -= (v @ lead) * lead
                v /= np.linalg.norm(v) + 1e-300
                return np.sqrt(1 - eps * eps) * v + eps * lead
            np.random.randn = fake_randn
            try:
                sn = spectral_norm(Xc.data, Xc.indptr, Xc.indices, n)
            finally:
                np.random.randn = orig
            probes["F-RNG-adversarial"] = probes.get("F-RNG-adversarial", 0) + 1
            if sn ** 2 > L2 * (1 + UPPER_REL):
                add("upper_bound", ("spectral_norm", "adversarial", "above_true_value"),
                    dict(value=float(sn ** 2), true=L2, eps=eps), dict(datafit="spectral_norm", what="adversarial"))
    # ---- by-product: dense constants and raw_hessian (deterministic evaluation, not simulation)
    rl = dict(Quadratic=L_.Quadratic(y), Logistic=L_.Logistic(ybin), Huber=L_.Huber(y, 1.0),
              WeightedQuadratic=L_.WeightedQuadratic(y, sw))
    u = np.clip(X @ (np.ones(p) * 0.1), -20.0, 20.0)
    Xf = np.asfortranarray(X)
    for name, df, Mc, Md, yy, truth in cases:
        try:
            gd = df.get_global_lipschitz(np.asfortranarray(Md), yy)
            if abs(gd - truth) > 1e-9 * (abs(truth) + 1e-300):
                add("dense_global", (name, "global_dense", "differs_from_reference"),
                    dict(value=float(gd), true=float(truth)), dict(datafit=name, what="global_dense"))
            if hasattr(df, "get_lipschitz"):
                ld = np.asarray(df.get_lipschitz(np.asfortranarray(Md), yy), dtype=float)
                ls = np.asarray(df.get_lipschitz_sparse(Mc.data, Mc.indptr, Mc.indices, yy), dtype=float)
                if name in rl:
                    c = rl[name].curv_vec() if hasattr(rl[name], "curv_vec") else np.full(n, rl[name].curv_const())
                    ref = (c[:, None] * X ** 2).sum(axis=0)
                elif name == "QuadraticSVC":
                    ref = (yXT ** 2).sum(axis=0)
                else:
                    ref = None
                if ref is not None and not np.allclose(ld, ref, rtol=1e-10, atol=1e-300):
                    add("dense_coordinate", (name, "coordinate_dense", "differs_from_reference"),
                        dict(max_abs=float(np.max(np.abs(ld - ref)))), dict(datafit=name, what="coordinate_dense"))
                if not np.allclose(ld, ls, rtol=1e-10, atol=1e-300):
                    add("sparse_vs_dense", (name, "coordinate", "sparse_differs_from_dense"),
                        dict(max_abs=float(np.max(np.abs(ld - ls)))), dict(datafit=name, what="coordinate_sparse"))
            if name in rl and hasattr(df, "raw_hessian"):
                rh = np.asarray(df.raw_hessian(yy, u), dtype=float)
                ref = rl[name].hess_bound(u) if name != "Huber" else None
                if ref is not None and not np.allclose(rh, ref, rtol=1e-6, atol=1e-12 * float(np.max(np.abs(ref)))):
                    add("raw_hessian", (name, "raw_hessian", "differs_from_reference"),
                        dict(max_abs=float(np.max(np.abs(rh - ref)))), dict(datafit=name, what="raw_hessian"))
        except Exception as e:
            exc = classify_exception(e)
            if exc.get("harness"):
                raise
            add("crash", (name, "dense", "crash", exc["type"]), dict(exc=exc), dict(datafit=name, exc_type=exc["type"]))
    try:
        gld = np.asarray(gq.get_lipschitz(Xf, y), dtype=float)
        if not np.allclose(gld, group_true, rtol=1e-9, atol=1e-300):
            add("dense_group", ("QuadraticGroup", "group_dense", "differs_from_reference"),
                dict(max_abs=float(np.max(np.abs(gld - group_true)))), dict(datafit="QuadraticGroup", what="group_dense"))
        lg = compiled_clone(LogisticGroup(ptr, idx))
        lg.initialize(Xf, ybin)
        if not np.allclose(np.asarray(lg.lipschitz), group_true / 4, rtol=1e-9, atol=1e-300):
            add("dense_group", ("LogisticGroup", "group_dense", "differs_from_reference"), {},
                dict(datafit="LogisticGroup", what="group_dense"))
        # Cox: the documented diagonal bound, on survival times *with ties*, both conventions
        tm_t = np.round((np.abs(y) + 0.1) * 2 + 0.5) / 2
        ys_t = np.column_stack([tm_t, ysurv[:, 1]])
        for ef in (False, True):
            dc = compiled_clone(Cox(ef))
            dc.initialize(Xf, ys_t)
            rh = np.asarray(dc.raw_hessian(ys_t, u), dtype=float)
            ref = L_.Cox(ys_t, ef).hess_bound(u)
            probes["cox_raw_hessian_compared"] = probes.get("cox_raw_hessian_compared", 0) + 1
            if not np.allclose(rh, ref, rtol=1e-6, atol=1e-12 * float(np.max(np.abs(ref), initial=0.0))):
                add("raw_hessian", ("Cox", "raw_hessian", "differs_from_reference"),
                    dict(max_abs=float(np.max(np.abs(rh - ref))), use_efron=ef),
                    dict(datafit="Cox", what="raw_hessian", use_efron=ef))
        for nm, cls_, rlo, yy in (("Poisson", Poisson, L_.Poisson(np.abs(np.round(y * 2))), np.abs(np.round(y * 2))),
                                  ("Gamma", Gamma, L_.Gamma(np.abs(y) + 0.1), np.abs(y) + 0.1)):
            d = compiled_clone(cls_())
            rh = np.asarray(d.raw_hessian(yy, u), dtype=float)
            if not np.allclose(rh, rlo.hess_bound(u), rtol=1e-6):
                add("raw_hessian", (nm, "raw_hessian", "differs_from_reference"), {}, dict(datafit=nm, what="raw_hessian"))
    except Exception as e:
        exc = classify_exception(e)
        if exc.get("harness"):
            raise
        add("crash", ("group", "dense", "crash", exc["type"]), dict(exc=exc), dict(datafit="group", exc_type=exc["type"]))
    # the accessors are given the caller's CSC arrays: they may not write into them
    if not np.array_equal(Xc.data, sp.csc_matrix(X).data):
        add("input_modified", ("accessor", "csc_arrays_modified"),
            dict(n_nan=int(np.isnan(Xc.data).sum())), dict(datafit="accessor", what="input_modified"))
    probes["worst_rel_below_permille"] = int(1000 * worst["rel_below"])
    return dict(check="C09", seed=plan.get("seed"), run=plan.get("run"), engine=env.engine(),
                digest=log.hexdigest(), violations=violations, counts=counts,
                logical=dict(solves=0, outer=0, epochs=0, ops=len(plan["rng_draws"])),
                fired={"F-RNG": len(plan["rng_draws"])}, probes=probes, seam_missing=[],
                distinct_key=("rng", plan["data"]["gen"]["kind"], n, p, len(ptr) - 1),
                wall=time.time() - t0, n_results=counts["solved"])
