"""C18 at solver level: a solver *object* is user-held state.

One seeded history per plan: the same solver object solves problem A (budget-limited, so that it
stops at an arbitrary moment of its extrapolation / working-set cycle), then problem B of the
same shape - given as a new array, or written *into the array object A lived in* (in-place
refill / rescaling, the way a preallocated buffer or an in-place standardisation does) - and
the second result must equal, bit for bit, what a fresh solver object with the same constructor
arguments returns on a fresh copy of B.  The scalar hyper-parameters of the reused object are
snapshotted around every call.  Everything runs in one process with the RNG seam pinned to the
same value before the two compared solves, so equality is demanded between executions of the
same engine, same code, same inputs (DESIGN 5b).
"""
import hashlib
import time
import numpy as np
import scipy.sparse as sp

from . import binding as B
from . import env
from . import gen as G
from .gen import choice
from .session import classify_exception
from .seams import Seams


def make_plan(seed, run, engine, rng, entry_index=None):
    entry = G.CATALOG[entry_index % len(G.CATALOG)] if entry_index is not None else choice(rng, G.CATALOG)
    n, p = int(rng.integers(4, 22)), int(rng.integers(2, 14))
    prob = G.gen_problem(rng, entry, n=n, p=p)
    probB = G.gen_problem(rng, entry, n=n, p=p, variant=prob["family"]["variant"], fi=prob["fi"],
                          storage=prob["storage"])
    solver = entry[0]
    fi, pp = prob["fi"], (n if entry[1] == "QuadraticSVC" else p)
    knobs = G.gen_knobs(rng, solver, pp, fi, prob["family"].get("alpha_max_rm") or 1.0)
    knobs["max_iter"] = int(choice(rng, [1, 2, 3, 5, 6, 7, 12, 20, 100]))
    inner = B.INNER_BUDGET.get(solver)
    if inner:
        knobs[inner] = int(choice(rng, G.EPOCH_GRID + [200]))
    if solver == "GramCD" and rng.random() < 0.7:
        knobs["greedy_cd"], knobs["use_acc"] = False, True
    if prob["family"]["penalty"] == "WeightedL1GroupL2" and "ws_strategy" in knobs:
        knobs["ws_strategy"] = "fixpoint"
    if prob["family"]["penalty"] == "SLOPE" and "opt_strategy" in knobs:
        knobs["opt_strategy"] = "fixpoint"
    mode = choice(rng, ["new_array", "refill", "rescale"], p=[.4, .35, .25])
    share = bool(rng.random() < 0.5)
    return dict(check="C18", level="reuse", seed=int(seed), run=int(run), engine=engine,
                rng_seed=int(rng.integers(1 << 31)), family=prob["family"], data=prob["data"],
                data_b=probB["data"], storage=prob["storage"], knobs=knobs, mode=mode, share_objects=share,
                factor=float(choice(rng, [3.0, 0.25, -2.0])), datasets=[prob["data"], probB["data"]],
                ops=[dict(op="solver_reuse", mode=mode)])


def _params(solver):
    """Scalar constructor arguments of the solver object, by value."""
    import inspect
    out = {}
    try:
        ctor = set(inspect.signature(type(solver).__init__).parameters)
    except (TypeError, ValueError):
        ctor = None
    for k, v in vars(solver).items():
        if ctor is not None and k not in ctor:
            continue
        if isinstance(v, (bool, np.bool_, int, float, np.integer, np.floating)):
            out[k] = repr(float(v))
        elif isinstance(v, (str, type(None))):
            out[k] = repr(v)
    return out


def _hash(X):
    h = hashlib.sha256()
    if sp.issparse(X):
        for a in (X.data, X.indices, X.indptr):
            h.update(np.ascontiguousarray(a).tobytes())
    else:
        h.update(np.ascontiguousarray(X).tobytes())
    return h.hexdigest()


SELF_INITIALISING = ("AndersonCD", "GroupBCD", "MultiTaskBCD")    # call datafit.initialize in _solve


def _solve(solver, X, y, fam, storage, faults=None, objects=None, keep=None):
    """Fresh compiled datafit / penalty instances, initialised on (X, y) - or, with ``objects``,
    the very datafit / penalty objects an earlier solve used, handed over as they are and with
    ``run_checks=False`` (the documented way to skip the compatibility checks when the same
    objects are reused): only for the solvers that initialise the datafit themselves."""
    if objects is not None:
        df, pen = objects
        seams = Seams(faults)
        with seams.active():
            w, obj, stop = solver.solve(X, y, df, pen, run_checks=False)
        return np.array(w, dtype=float), np.array(obj, dtype=float), float(stop), seams
    df = B.build_datafit(fam["datafit"], fam.get("dargs"))
    pen = B.build_penalty(fam["penalty"], fam["pargs"])
    if df is not None:
        if sp.issparse(X):
            if hasattr(df, "initialize_sparse"):
                df.initialize_sparse(X.data, X.indptr, X.indices, y)
        elif hasattr(df, "initialize"):
            df.initialize(X, y)
    if keep is not None:
        keep.extend([df, pen])
    seams = Seams(faults)
    with seams.active():
        w, obj, stop = solver.solve(X, y, df, pen)
    return np.array(w, dtype=float), np.array(obj, dtype=float), float(stop), seams


def run_plan(plan):
    t0 = time.time()
    fam = plan["family"]
    sname, dname = fam["solver"], fam["datafit"]
    storage = plan["storage"]
    knobs = plan["knobs"]
    violations = []
    counts = dict(solved=0, refused=0, crashed=0, claimed=0, stops=0)
    probes, fired = {}, {}
    log = hashlib.sha256()
    sig0 = (sname, dname, fam["penalty"])
    feat0 = dict(solver=sname, datafit=dname, penalty=fam["penalty"], storage=storage, mode=plan["mode"],
                 engine=plan.get("engine"), max_iter=knobs.get("max_iter"),
                 inner=knobs.get(B.INNER_BUDGET.get(sname, ""), None), use_acc=knobs.get("use_acc"))

    def add(oracle, sig, detail, extra=None):
        violations.append(dict(prop=["C18"], oracle=oracle, sig=tuple(sig), detail=detail,
                               feat=dict(feat0, **(extra or {})), op=0))

    XA = B.design_for_solver(plan["data"]["X"], plan["data"]["y"], dname)
    yA = B.target_for_solver(plan["data"]["y"], dname)
    XB = B.design_for_solver(plan["data_b"]["X"], plan["data_b"]["y"], dname)
    yB = B.target_for_solver(plan["data_b"]["y"], dname)
    mode = plan["mode"]
    if mode == "rescale" or XA.shape != XB.shape:
        if mode != "rescale":
            mode = "rescale"
        XB = XA * plan["factor"]         # the same design, rescaled (in place below)
        yB = yA
        if dname == "QuadraticSVC":
            XB = XA.copy()               # (the dual design carries the labels: keep it)
    base_seed = int(plan.get("rng_seed", 0))
    try:
        solver = B.build_solver(sname, knobs)
        Xc = B.make_container(XA, storage)
        before = _params(solver)
        env.seed_rng(base_seed + 1)
        try:
            kept = []
            w1, o1, s1, se1 = _solve(solver, Xc, yA, fam, storage, keep=kept)
            counts["solved"] += 1
            log.update(w1.tobytes() + o1.tobytes())
        except Exception as e:
            exc = classify_exception(e)
            if exc.get("harness"):
                raise
            counts["refused"] += 1        # the composition itself is C13's business
            return _record(plan, log, violations, counts, probes, fired, t0, nontrivial=False)
        after1 = _params(solver)
        if after1 != before:
            ch = sorted(k for k in set(before) | set(after1) if before.get(k) != after1.get(k))
            add("solver_hyperparameters_modified", sig0 + ("solver_hyperparameters_modified", ch[0]),
                dict(changed={k: [before.get(k), after1.get(k)] for k in ch}), dict(which=ch[0]))
        # ---- problem B reaches the same solver object
        if mode == "new_array":
            X2 = B.make_container(XB, storage)
        else:
            # written into the array object problem A lived in
            if sp.issparse(Xc):
                B2 = B.make_container(XB, storage)
                if B2.data.shape == Xc.data.shape and np.array_equal(B2.indices, Xc.indices) \
                        and np.array_equal(B2.indptr, Xc.indptr):
                    Xc.data[:] = B2.data
                    X2 = Xc
                else:
                    X2 = B2
                    mode = "new_array"
            else:
                Xc[...] = XB
                X2 = Xc
        probes["solver_reuse_" + mode] = 1
        hx = _hash(X2)
        env.seed_rng(base_seed + 2)
        r2 = e2 = None
        share = bool(plan.get("share_objects")) and sname in SELF_INITIALISING and len(kept) == 2 \
            and kept[0] is not None
        if share:
            probes["solver_reuse_shared_datafit_penalty"] = 1
        try:
            r2 = _solve(solver, X2, yB, fam, storage, objects=tuple(kept) if share else None)
        except Exception as e:
            e2 = classify_exception(e)
            if e2.get("harness"):
                raise
        if _hash(X2) != hx:
            add("input_modified", sig0 + ("input_modified", "solver_reuse"), {})
        after2 = _params(solver)
        if after2 != before:
            ch = sorted(k for k in set(before) | set(after2) if before.get(k) != after2.get(k))
            add("solver_hyperparameters_modified", sig0 + ("solver_hyperparameters_modified", ch[0]),
                dict(changed={k: [before.get(k), after2.get(k)] for k in ch}), dict(which=ch[0]))
        # ---- reference: a fresh solver object on a fresh copy of B
        fresh = B.build_solver(sname, knobs)
        X3 = B.make_container(np.array(XB, dtype=float, copy=True), storage)
        env.seed_rng(base_seed + 2)
        r3 = e3 = None
        try:
            r3 = _solve(fresh, X3, yB, fam, storage)
        except Exception as e:
            e3 = classify_exception(e)
            if e3.get("harness"):
                raise
        probes["solver_reuse_compared"] = 1
        if (r2 is None) != (r3 is None):
            add("solver_state_leak", sig0 + ("reused_solver_outcome_differs_from_fresh_solver",),
                dict(reused=(e2 or {}).get("type", "solved"), fresh=(e3 or {}).get("type", "solved"),
                     msg=((e2 or e3) or {}).get("msg", "")[:200]))
        elif r2 is not None:
            counts["solved"] += 1
            w2, o2, s2, se2 = r2
            w3, o3, s3, se3 = r3
            log.update(w2.tobytes() + o2.tobytes())
            same = w2.shape == w3.shape and w2.tobytes() == w3.tobytes() and o2.tobytes() == o3.tobytes() \
                and (s2 == s3 or (np.isnan(s2) and np.isnan(s3)))
            if not same:
                diff = float(np.max(np.abs(w2 - w3))) if w2.shape == w3.shape and w2.size else float("nan")
                add("solver_state_leak", sig0 + ("reused_solver_result_differs_from_fresh_solver",),
                    dict(max_abs_diff=diff, stop_reused=s2, stop_fresh=s3, len_reused=len(o2), len_fresh=len(o3),
                         epochs_first_solve=se1.n_epochs), dict(max_abs_diff=diff))
        logical = dict(solves=3, outer=se1.n_argpartition, epochs=se1.n_epochs, ops=1)
    except Exception:
        raise
    return _record(plan, log, violations, counts, probes, fired, t0, nontrivial=True, logical=logical,
                   sig_events=(mode, min(se1.n_epochs, 99), tuple(se1.ws_sizes[:3])))


def _record(plan, log, violations, counts, probes, fired, t0, nontrivial, logical=None, sig_events=None):
    fam = plan["family"]
    return dict(check="C18", seed=plan.get("seed"), run=plan.get("run"), engine=env.engine(),
                digest=log.hexdigest(), violations=violations, counts=counts,
                logical=logical or dict(solves=1, outer=0, epochs=0, ops=1), fired=fired, probes=probes,
                seam_missing=[],
                distinct_key=("reuse", fam["solver"], fam["datafit"], fam.get("variant", fam["penalty"]),
                              plan.get("storage"), sig_events) if nontrivial else None,
                wall=time.time() - t0, n_results=counts["solved"])
