"""Per-run wall cap of the batch workers (SIGALRM).

The cap is a harness resource limit, not part of the simulation: a run that hits it produces no
verdict (`inconclusive`).  The handler raises `RunTimeout`; when the signal arrives while a numba
dispatcher is on the stack, CPython turns that into `SystemError: CPUDispatcher(...) returned a
result with an exception set`, which the runners would record as a crash *of skglm* (observed for
ProxNewton under machine load: a "crash" at wall = cap that no fresh process reproduces).  So the
hit is also remembered in `state`: `classify_exception` re-raises instead of classifying, the
batch worker discards whatever record a run returns after its cap was hit, and the timer keeps
firing every two seconds until the worker disarms it, so a swallowed `RunTimeout` cannot turn the run
into one the supervisor has to kill as hung.

In the compiled engines raising is not safe at all: the signal may arrive in the middle of a JIT
compilation (llvmlite's ctypes callbacks print "Exception ignored" and lose it), and unwinding
through half-built llvmlite objects was seen to segfault in their finalisers.  There the worker
installs `on_hit`: the handler writes the `inconclusive` record itself and leaves with os._exit,
without unwinding anything; the supervisor starts a fresh worker for the rest of the shard.
"""
import signal

state = {"armed": False, "hit": False, "on_hit": None}


class RunTimeout(BaseException):
    pass


def _alarm(signum, frame):
    if state["armed"]:
        state["hit"] = True
        if state["on_hit"] is not None:
            state["on_hit"]()          # (compiled engines: record the run and leave, see below)
        raise RunTimeout()


def install():
    signal.signal(signal.SIGALRM, _alarm)


def arm(cap):
    state["hit"] = False
    state["armed"] = True
    signal.setitimer(signal.ITIMER_REAL, max(1.0, float(cap)), 2.0)


def disarm():
    state["armed"] = False
    signal.setitimer(signal.ITIMER_REAL, 0.0)


def check():
    """Called where the runners are about to attribute an exception to the library."""
    if state["hit"]:
        raise RunTimeout()
