"""Estimator level binding: construct skglm estimators from plain dicts, and map an estimator
with its *current* get_params() to the reference problem written in its documentation."""
import numpy as np

from . import binding as B
from .refmodel import losses as L_, penalties as P_
from .refmodel.problem import Problem, dense

# class name -> data kind
EST_KIND = {
    "Lasso": "reg", "WeightedLasso": "reg", "ElasticNet": "reg", "MCPRegression": "reg",
    "GroupLasso": "reg", "MultiTaskLasso": "multi", "SparseLogisticRegression": "bin",
    "LinearSVC": "bin", "CoxEstimator": "surv", "SqrtLasso": "reg",
    "GeneralizedLinearEstimator": None, "IterativeReweightedL1": "reg",
}
CONVEX_EST = {"Lasso", "WeightedLasso", "ElasticNet", "GroupLasso", "MultiTaskLasso",
              "SparseLogisticRegression", "LinearSVC", "CoxEstimator", "SqrtLasso"}


def est_class(name):
    import skglm.estimators as E
    if name == "SqrtLasso":
        from skglm.experimental.sqrt_lasso import SqrtLasso
        return SqrtLasso
    if name == "IterativeReweightedL1":
        from skglm.experimental.reweighted import IterativeReweightedL1
        return IterativeReweightedL1
    return getattr(E, name)


def build_estimator(name, args):
    """args is JSON-able; arrays are lists; GLE gets nested specs."""
    kw = dict(args)
    if name in ("WeightedLasso", "MCPRegression", "GroupLasso") and kw.get("weights") is not None:
        kw["weights"] = np.array(kw["weights"], dtype=float)
    if name == "GeneralizedLinearEstimator":
        fam = kw.pop("family")
        knobs = kw.pop("knobs", {})
        datafit = B.build_datafit(fam["datafit"], fam.get("dargs"), compiled=False)
        penalty = B.build_penalty(fam["penalty"], fam["pargs"], compiled=False)
        solver = B.build_solver(fam["solver"], knobs)
        return est_class(name)(datafit=datafit, penalty=penalty, solver=solver)
    if name == "IterativeReweightedL1":
        fam = kw.pop("family")
        knobs = kw.pop("knobs", {})
        penalty = B.build_penalty(fam["penalty"], fam["pargs"], compiled=False)
        datafit = B.build_datafit("Quadratic", {}, compiled=False)
        solver = B.build_solver("AndersonCD", knobs)
        return est_class(name)(datafit=datafit, penalty=penalty, solver=solver, **kw)
    return est_class(name)(**kw)


def reference_problem(name, params, X, y, classes=None, family=None):
    """The objective written in the estimator's documentation, for its current parameters.

    Returns (problem, info) with info = dict(criterion, tol, convex, transform) where
    transform(coef_, intercept_) -> (w, b) in the reference problem's variables."""
    Xd = dense(X)
    n, p = Xd.shape
    fi = bool(params.get("fit_intercept", False))
    tol = params.get("tol", 1e-4)
    crit = params.get("ws_strategy", "subdiff")
    if name in ("Lasso", "WeightedLasso", "ElasticNet", "MCPRegression"):
        loss = L_.Quadratic(np.asarray(y, dtype=float))
        a = float(params["alpha"])
        pos = bool(params.get("positive", False))
        if name == "Lasso":
            pen = P_.L1(a, pos)
        elif name == "WeightedLasso":
            wts = params.get("weights")
            pen = P_.L1(a, pos) if wts is None else P_.WeightedL1(a, np.asarray(wts, dtype=float), pos)
        elif name == "ElasticNet":
            pen = P_.L1_plus_L2(a, float(params["l1_ratio"]), pos)
        else:
            wts = params.get("weights")
            pen = P_.MCP(a, float(params["gamma"]), pos,
                         None if wts is None else np.asarray(wts, dtype=float))
        return Problem(Xd, loss, pen, fi), dict(criterion=crit, tol=tol)
    if name == "GroupLasso":
        from .grp import grp_converter_ref
        idx, ptr = grp_converter_ref(params["groups"], p)
        wts = params.get("weights")
        wts = np.ones(len(ptr) - 1) if wts is None else np.asarray(wts, dtype=float)
        pen = P_.WeightedGroupL2(float(params["alpha"]), wts, ptr, idx, bool(params.get("positive", False)))
        return Problem(Xd, L_.Quadratic(np.asarray(y, dtype=float)), pen, fi), \
            dict(criterion="subdiff", tol=tol)    # GroupLasso.fit does not forward ws_strategy
    if name == "MultiTaskLasso":
        pen = P_.L2_1(float(params["alpha"]))
        return Problem(Xd, L_.QuadraticMultiTask(np.asarray(y, dtype=float)), pen, fi), \
            dict(criterion=crit, tol=tol)
    if name == "SparseLogisticRegression":
        pen = P_.L1(float(params["alpha"]))
        return Problem(Xd, L_.Logistic(np.asarray(y, dtype=float)), pen, fi), \
            dict(criterion="subdiff", tol=tol)
    if name == "LinearSVC":
        ypm = np.asarray(y, dtype=float)
        D = (Xd * ypm[:, None]).T
        pen = P_.IndicatorBox(float(params["C"]))
        return Problem(D, L_.SVCDual(ypm), pen, False), dict(criterion=crit, tol=tol)
    if name == "CoxEstimator":
        l1r = float(params["l1_ratio"])
        a = float(params["alpha"])
        if l1r == 1.0:
            pen = P_.L1(a)
        elif 0 < l1r < 1:
            pen = P_.L1_plus_L2(a, l1r)
        else:
            pen = P_.L2(a)
        loss = L_.Cox(np.asarray(y, dtype=float), use_efron=(params["method"] == "efron"))
        return Problem(Xd, loss, pen, False), dict(criterion="subdiff", tol=tol)
    if name == "SqrtLasso":
        pen = P_.L1(float(params["alpha"]))
        return Problem(Xd, L_.SqrtQuadratic(np.asarray(y, dtype=float)), pen, False), \
            dict(criterion="subdiff", tol=tol)
    if name in ("GeneralizedLinearEstimator", "IterativeReweightedL1"):
        data = dict(X=Xd.tolist(), y=np.asarray(y, dtype=float).tolist())
        fam = family
        fi = B.solver_fit_intercept(fam["solver"], fam.get("knobs"))
        pr = B.rm_problem(data, fam, fam["pargs"], fi)
        k = fam.get("knobs") or {}
        return pr, dict(criterion=k.get("ws_strategy", "subdiff"), tol=k.get("tol", 1e-4))
    raise KeyError(name)
