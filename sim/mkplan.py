"""Write the plan of one run to a file (pure function of check, seed, run, engine, tier)."""
import argparse
import sys


def main(argv=None):
    ap = argparse.ArgumentParser()
    ap.add_argument("--engine", required=True)
    ap.add_argument("--check", required=True)
    ap.add_argument("--seed", type=int, required=True)
    ap.add_argument("--run", type=int, required=True)
    ap.add_argument("--tier", default="quick")
    ap.add_argument("--entry", type=int, default=None)
    ap.add_argument("--out", required=True)
    args = ap.parse_args(argv)
    from . import env
    env.setup(args.engine)
    from . import checks_registry as R
    from .util import dumps
    plan = R.make_plan(args.check, args.seed, args.run, args.engine, args.tier, args.entry)
    with open(args.out, "w") as f:
        f.write(dumps(plan))
    return 0


if __name__ == "__main__":
    sys.exit(main())
