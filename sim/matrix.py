"""Composition matrix (C13), degenerate-data batch (C19) and bounds-checked replay (C20).

C13: run index i -> cell (i mod N_cells) of the full solver x datafit x penalty x {dense, CSC} x
{fit_intercept} x {strategy} matrix, scheduler draw (i // N_cells) mod 3.  The traversal of the
matrix is stratified enumeration; what is simulated is the supervised execution of each cell
under several scheduler draws (default knobs; tiny budget; warm start with p0 = 1).
"""
import os
import numpy as np

from . import binding as B
from . import gen as G
from .gen import choice

STRATS = ["subdiff", "fixpoint"]
SD_PAIRS = [(s, d) for s in B.SOLVERS for d in B.DATAFITS]          # 9 x 14 "entries"
CELLS_PER_PAIR = len(B.PENALTIES) * 2 * 2 * 2
# visiting order of the pairs: the compositions the library documents (the catalogue) first, so
# that a short batch reaches every cell that can be *solved* before the many cells that can
# only be refused
_VALID = {(e[0], e[1]) for e in G.CATALOG}
PAIR_ORDER = [i for i, sd in enumerate(SD_PAIRS) if sd in _VALID] + \
             [i for i, sd in enumerate(SD_PAIRS) if sd not in _VALID]


def n_entries(check):
    if check == "C13":
        return len(SD_PAIRS)
    return len(G.CATALOG)


def cell_of(index):
    """index in [0, N_cells) -> (solver, datafit, penalty, storage, fi, strategy)."""
    pair, rest = divmod(index, CELLS_PER_PAIR)
    solver, datafit = SD_PAIRS[pair % len(SD_PAIRS)]
    pen_i, rest = divmod(rest, 8)
    storage = "csc" if rest & 1 else "F"
    fi = bool(rest & 2)
    strat = STRATS[1] if rest & 4 else STRATS[0]
    return solver, datafit, B.PENALTIES[pen_i], storage, fi, strat


N_CELLS = len(SD_PAIRS) * CELLS_PER_PAIR


def penalty_args(rng, pname, m, groups):
    """Arguments of natural shape for a problem with m coefficients."""
    ptr, idx = groups
    Gn = len(ptr) - 1
    a = dict()
    if pname in ("WeightedL1", "WeightedMCPenalty"):
        a["weights"] = G.sig3(rng.uniform(0.3, 2.0, m), 3).tolist()
    if pname in ("MCPenalty", "WeightedMCPenalty", "BlockMCPenalty"):
        a["gamma"] = 30.0
    if pname in ("SCAD", "BlockSCAD"):
        a["gamma"] = 30.0
    if pname == "L1_plus_L2":
        a["l1_ratio"] = 0.6
    if pname == "LogSumPenalty":
        a["eps"] = 1.0
    if pname == "SLOPE":
        return dict(alphas=None)
    if pname == "PositiveConstraint":
        return a
    if pname == "WeightedGroupL2":
        a.update(weights=G.sig3(rng.uniform(0.5, 1.5, Gn), 3).tolist(), grp_ptr=ptr, grp_indices=idx)
    if pname == "WeightedL1GroupL2":
        a.update(weights_groups=G.sig3(rng.uniform(0.5, 1.5, Gn), 3).tolist(),
                 weights_features=G.sig3(rng.uniform(0.1, 1.0, m), 3).tolist(),
                 grp_ptr=ptr, grp_indices=idx)
    return a


def make_cell_plan(check, seed, run, engine, index, draw):
    rng = G.rng_for(seed, check, run)
    solver, datafit, pname, storage, fi, strat = cell_of(index)
    kind = B.DATAFIT_KIND[datafit]
    n, p = int(rng.integers(6, 12)), int(rng.integers(3, 8))
    unregularised = pname in ("PositiveConstraint", "IndicatorBox")
    if unregularised and kind in ("bin", "count", "pos", "surv"):
        n = 3 * p + 4          # keep the unpenalised likelihood bounded (no separation)
    T = 2 if kind == "multi" else None
    X, xinfo = G.gen_X(rng, n, p, rho=0.5, density=0.8 if storage == "csc" else 1.0, scale_decades=0.3)
    # no accidental all-zero column: that is C19's business
    for j in range(p):
        if not np.any(X[:, j]):
            X[int(rng.integers(n)), j] = 1.0
    y = G.gen_target(rng, X, kind, T or 2)
    if kind == "reg":
        y = y + 0.5 * rng.standard_normal(n)       # noisy: keep the sqrt-loss away from interpolation
    if unregularised and kind == "bin":
        y = np.where(rng.random(n) < 0.5, 1.0, -1.0)   # labels independent of X: not separable
        y[0], y[1] = 1.0, -1.0
    data = dict(X=X.tolist(), y=np.asarray(y).tolist(), kind=kind, degen=None, gen=xinfo)
    m = n if datafit == "QuadraticSVC" else p
    ptr, idx = G.gen_groups(rng, m)
    dargs = {}
    if datafit == "WeightedQuadratic":
        dargs = dict(sample_weights=G.sig3(rng.uniform(0.5, 2.0, n), 3).tolist())
    elif datafit == "Huber":
        dargs = dict(delta=1.0)
    elif datafit == "Cox":
        dargs = dict(use_efron=bool(rng.random() < 0.5))
    elif datafit == "Pinball":
        dargs = dict(quantile_level=0.4)
    elif datafit in ("QuadraticGroup", "LogisticGroup"):
        dargs = dict(grp_ptr=ptr, grp_indices=idx)
    pargs = penalty_args(rng, pname, m, (ptr, idx))
    fam = dict(solver=solver, datafit=datafit, dargs=dargs, penalty=pname, pargs=pargs, variant=pname)
    # regularisation: a fraction of the critical strength of the L1-like surrogate when the
    # reference model can form the problem, else a fraction of the null gradient
    try:
        amax = G.reference_alpha_max(fam, data, fi and solver in B.SUPPORTS_INTERCEPT)
    except Exception:
        amax = 1.0
    if not np.isfinite(amax) or amax <= 0:
        amax = 1.0
    frac = 0.3
    if pname == "SLOPE":
        pargs["alphas"] = G.sig3(amax * frac * np.linspace(1.0, 0.5, m), 5).tolist()
    elif pname == "IndicatorBox":
        pargs["alpha"] = 1.0
    elif pname != "PositiveConstraint":
        pargs["alpha"] = float(G.sig3(amax * frac, 5))
    fam["alpha_max_rm"] = amax
    fam["alpha_frac"] = frac
    gs = amax
    knobs = dict(tol=float(G.sig3(gs * 1e-5, 3)))
    if solver in B.SUPPORTS_INTERCEPT:
        knobs["fit_intercept"] = fi
    if solver in ("AndersonCD", "ProxNewton", "GroupBCD", "MultiTaskBCD"):
        knobs["ws_strategy"] = strat
    if solver == "FISTA":
        knobs["opt_strategy"] = strat
    start, w0 = "cold", None
    if draw == 1:       # tiny budget
        knobs["max_iter"] = int(choice(rng, [0, 1, 2]))
        inner = B.INNER_BUDGET.get(solver)
        if inner:
            knobs[inner] = int(choice(rng, [1, 6, 7, 11]))
    elif draw == 2:     # warm start, smallest working set
        if solver in ("AndersonCD", "ProxNewton", "GroupBCD", "GroupProxNewton", "MultiTaskBCD", "PDCD_WS"):
            knobs["p0"] = 1
        fi_eff = fi and solver in B.SUPPORTS_INTERCEPT
        w0 = np.array(G.gen_start_point(rng, m, fi_eff, T, 0.1))
        if pname in ("IndicatorBox", "PositiveConstraint"):
            w0[:m] = np.minimum(np.abs(w0[:m]), 1.0)
        w0 = w0.tolist()
        start = "point"
    ops = [dict(op="solve", start=start, w0=w0, knobs=knobs, faults={}, storage=storage)]
    return dict(check=check, level="solver", matrix=True, seed=int(seed), run=int(run), engine=engine,
                rng_seed=int(rng.integers(1 << 31)), family=fam, data=data, storage=storage, ops=ops,
                cell=[solver, datafit, pname, storage, fi, strat], draws=int(draw), fi=fi)


def plan_C13(seed, run, engine, tier="quick", entry=None):
    """Workers are sharded by (solver, datafit) pair so that JIT cost is amortised: with a
    forced entry, run index r visits cell  entry * CELLS_PER_PAIR + (r // W) mod CELLS_PER_PAIR
    (W = number of shards is not known here; the stride only has to be a bijection modulo
    CELLS_PER_PAIR, which r // 1 is as well)."""
    if entry is not None:
        # worker-local counter: the shard of worker k holds the runs r = k (mod W), W = number
        # of workers of the batch (exported by the driver; the replay file stores the plan itself)
        W = max(1, int(os.environ.get("VERIF_SHARDS", "16")))
        c = run // W
        local = c % CELLS_PER_PAIR
        step = c // CELLS_PER_PAIR
        pos = int(entry) + W * step
        pair = PAIR_ORDER[pos % len(SD_PAIRS)]
        # the budget / start variant rotates with the cell and with every full pass
        draw = (pos // len(SD_PAIRS) + local + seed) % 3
        index = pair * CELLS_PER_PAIR + local
    else:
        index = (run + seed * 7919) % N_CELLS
        draw = (run // N_CELLS + seed) % 3
    plan = make_cell_plan("C13", seed, run, engine, index, draw)
    if entry is not None:
        plan["forced_entry"] = int(entry)
    return plan


# ---------------------------------------------------------------------- C19 / C20 use the catalogue

_PLAIN_PENALTIES = ("L1", "L1_plus_L2", "MCPenalty", "SCAD", "L0_5", "L2_3", "LogSumPenalty",
                    "IndicatorBox", "PositiveConstraint")      # no per-feature arguments


def plan_C19(seed, run, engine, tier="quick", entry=None):
    from . import plans as P
    rng = G.rng_for(seed, "C19", run)
    if entry is not None:
        P._FORCED["entry"] = int(entry)
    try:
        e = P._pick_entry(rng, None)
    finally:
        P._FORCED["entry"] = None
    degen = choice(rng, G.DEGEN_KINDS)
    kw, kw_fi = {}, {}
    if e[1] in ("Poisson", "Gamma") and rng.random() < 0.3:
        # exponential links: a constant target of extreme magnitude is the degenerate structure that
        # matters (the first trial step of a line search overflows); one plan in 14 reaches it otherwise
        degen = "const_y"
        if True in e[4] and rng.random() < 0.7:
            kw_fi = dict(fi=True)
    if e[0] in ("AndersonCD", "MultiTaskBCD", "GramCD") and rng.random() < 0.2:
        # the blown-up column with bounded liveness: overdetermined, convex
        convex = [v for v in e[2] if v in ("L1", "WL1", "EN", "L1+", "L21")]
        if convex:
            degen = "scale_1e9"
            pp = int(rng.integers(2, 12))
            kw = dict(variant=choice(rng, convex), p=pp, n=pp + int(rng.integers(2, 12)))
    prob = G.gen_problem(rng, e, degen=degen, **{**kw_fi, **kw})
    if prob["storage"] == "csc" and rng.random() < 0.5:
        # how the degenerate structure is *stored* matters: explicit zeros, unsorted indices,
        # 64-bit index arrays
        prob["storage"] = choice(rng, ["csc_zeros", "csc_unsorted", "csc64"], p=[.5, .25, .25])
    solver = e[0]
    fi, p = prob["fi"], P._p(prob)
    gs = P._gscale(prob)
    rest = prob["family"].get("alpha_max_rest")
    if rest:
        gs = rest       # tolerances at the scale of the columns that are not blown up
    ops = []
    k = G.gen_knobs(rng, solver, p, fi, gs, ample=(rng.random() < 0.6) and not kw)
    # (degenerate structure matters most under a warm start: most coordinate-descent plans have one)
    st, w0 = P._start(rng, prob, allow_cold=not (solver in ("AndersonCD", "GroupBCD", "MultiTaskBCD", "GramCD")
                                                 and rng.random() < 0.5))
    dcol = (prob["data"].get("degen") or {}).get("col")
    if st == "point" and dcol is not None and dcol < len(w0) and not prob["T"] and rng.random() < 0.85 \
            and prob["family"]["datafit"] != "QuadraticSVC":
        # the warm start puts mass on the degenerate column
        w0 = list(w0)
        if w0[dcol] == 0:
            # (same convention as every generated start point: each coefficient moves the linear
            # predictor by a moderate amount, whatever the scale of its column)
            Xa_ = np.abs(np.asarray(prob["data"]["X"], dtype=float))
            rms = np.sqrt((Xa_ ** 2).mean(axis=0))
            moves = [abs(w0[j]) * rms[j] for j in range(min(p, Xa_.shape[1])) if w0[j] != 0 and rms[j] > 0]
            move = (float(np.median(moves)) if moves else 1.0) * choice(rng, [0.3, 1.0, 3.0])
            w0[dcol] = float(G.sig3(move / rms[dcol] if rms[dcol] > 0 else move, 4))
            fam_ = prob["family"]
            if fam_["pargs"].get("positive") or fam_["penalty"] in ("PositiveConstraint", "IndicatorBox"):
                w0[dcol] = abs(w0[dcol])
                if fam_["penalty"] == "IndicatorBox":
                    w0[dcol] = min(w0[dcol], fam_["pargs"]["alpha"])
    ops.append(dict(op="solve", start=st, w0=w0, knobs=k, faults=G.gen_faults(rng, solver, 0.3),
                    storage=prob["storage"]))
    if rng.random() < 0.4:
        k2 = G.gen_knobs(rng, solver, p, fi, gs, ample=True)
        k2["fit_intercept"] = k.get("fit_intercept", False)
        ops.append(dict(op="solve", start="buffers", knobs=k2, faults={}, storage=prob["storage"]))
    # a tolerance below the rounding noise of the gradient can never be met and only burns the
    # ample budgets (degenerate data often has a gradient scale near zero)
    Xa = np.abs(np.asarray(prob["data"]["X"], dtype=float))
    ya = np.abs(np.asarray(prob["data"]["y"], dtype=float))
    floor = 1e-13 * max(float(Xa.max(initial=0.0)), 1e-300) * max(float(ya.max(initial=0.0)), 1.0)
    if st == "point" and solver in ("AndersonCD", "GroupBCD", "MultiTaskBCD", "GramCD") and rng.random() < 0.9 \
            and not rest:
        # degenerate structure under a warm start: the quiescent solve from the surviving buffers
        # is judged against a cold start of the same problem (bounded liveness, C05 d)
        kq = dict(tol=k["tol"], fit_intercept=k.get("fit_intercept", False))
        for kk in ("p0", "ws_strategy", "use_acc", "greedy_cd"):
            if kk in k:
                kq[kk] = k[kk]
        ops.append(dict(op="quiesce", knobs=kq, storage=prob["storage"], optimum=False))
    dk = (prob["data"].get("degen") or {}).get("kind")
    if dk in ("zero_col", "zero_col_last", "zero_row") and solver in ("AndersonCD", "GramCD") \
            and st in ("cold", "cold_buf") and prob["family"]["penalty"] in _PLAIN_PENALTIES \
            and (dk != "zero_row" or prob["family"]["datafit"] == "QuadraticSVC") \
            and (dk == "zero_row" or prob["family"]["datafit"] != "QuadraticSVC") and rng.random() < 0.7:
        # a null column is decoupled from the rest of the problem: a cold quiescent solve may not
        # need much longer than the same problem without it ("never ... fails to terminate")
        kq = dict(tol=k["tol"], fit_intercept=k.get("fit_intercept", False))
        for kk in ("p0", "ws_strategy", "use_acc", "greedy_cd"):
            if kk in k:
                kq[kk] = k[kk]
        ops.append(dict(op="quiesce", knobs=kq, start="cold", storage=prob["storage"], optimum=False,
                        liveness=False, twin_liveness=True, budget=[60, 500]))
        for o in ops[:-1]:
            # (a solver that the degenerate structure keeps from terminating would otherwise burn
            # the ample budgets of the earlier operations and the run its wall cap)
            o["knobs"]["max_iter"] = min(o["knobs"].get("max_iter", 20), 20)
            for kk in ("max_epochs",):
                if kk in o["knobs"]:
                    o["knobs"][kk] = min(o["knobs"][kk], 200)
    if rest and solver in ("AndersonCD", "MultiTaskBCD", "GramCD"):
        # "... never fails to terminate": coordinate descent with exact coordinate steps is
        # invariant under column scaling, so a blown-up column may not keep a well-conditioned
        # convex problem from converging within the ample budget of a quiescent solve
        kq = dict(k)
        kq["tol"] = float(G.sig3(max(gs * 1e-4, 10 * floor), 3))
        ops.append(dict(op="quiesce", knobs=kq, storage=prob["storage"], optimum=False,
                        liveness=False, liveness_scale=True, budget=[30, 300]))
    for o in ops:
        if o["knobs"]["tol"] < floor:
            o["knobs"]["tol"] = float(G.sig3(floor, 3))
        # degenerate problems (rank-deficient SVC duals, duplicated columns, n < p) often cannot
        # reach a tight tolerance at all: a 300 x 3000-epoch budget then only burns the run's wall
        # cap (8 % of the SVC runs were lost as inconclusive).  100 x 1000 is still two orders of
        # magnitude beyond what these problem sizes need when they do converge.
        if o["op"] == "quiesce":
            o.setdefault("budget", [100, 1000])
        else:
            o["knobs"]["max_iter"] = min(o["knobs"].get("max_iter", 100), 100 if solver not in ("FISTA", "GramCD", "LBFGS") else 5000)
            for kk in ("max_epochs",):
                if kk in o["knobs"]:
                    o["knobs"][kk] = min(o["knobs"][kk], 1000)
    plan = P._mk("C19", seed, run, engine, prob, ops, rng)
    if entry is not None:
        plan["forced_entry"] = int(entry)
    return plan


def plan_C20(seed, run, engine, tier="quick", entry=None):
    """Shapes that move the last feature / group / sample to an array end: intercept on and
    off, working sets equal to all features, one group, groups ending at p - 1, CSC matrices
    whose last column is empty or full, short budgets (cheap: every plan runs twice)."""
    from . import plans as P
    rng = G.rng_for(seed, "C20", run)
    if entry is not None:
        P._FORCED["entry"] = int(entry)
    try:
        e = P._pick_entry(rng, None)
    finally:
        P._FORCED["entry"] = None
    n, p = int(rng.integers(2, 10)), int(rng.integers(1, 9))
    prob = G.gen_problem(rng, e, n=n, p=p, degen=choice(rng, [None, None, "zero_col_last", "one_feature"]))
    X = np.array(prob["data"]["X"], dtype=float)
    r = rng.random()
    if r < 0.2:
        X[:, -1] = 0.0                 # empty last CSC column
    elif r < 0.4:
        X[:, -1] = np.where(X[:, -1] == 0, 1.0, X[:, -1])      # full last column
    prob["data"]["X"] = X.tolist()
    if prob["data"].get("kind") == "surv" and rng.random() < 0.25:
        # a survival target without any observed event (a heavily censored study, a CV fold):
        # every index set built from the events is empty
        ys = np.array(prob["data"]["y"], dtype=float)
        ys[:, 1] = 0.0
        prob["data"]["y"] = ys.tolist()
        prob["data"]["degen"] = dict(kind="no_event")
    solver = e[0]
    fi, pp = prob["fi"], P._p(prob)
    gs = P._gscale(prob)
    k = G.gen_knobs(rng, solver, pp, fi, gs)
    k["max_iter"] = int(choice(rng, [1, 2, 3, 5]))
    inner = B.INNER_BUDGET.get(solver)
    if inner:
        k[inner] = int(choice(rng, [1, 2, 6, 7, 12]))
    if "p0" in k and rng.random() < 0.5:
        k["p0"] = int(max(pp, 1))
    st, w0 = P._start(rng, prob)
    ops = [dict(op="solve", start=st, w0=w0, knobs=k, faults={}, storage=prob["storage"])]
    if rng.random() < 0.3:
        # a start vector of the wrong length must be refused, not read past its end
        rows = pp + int(choice(rng, [0, 2])) + (0 if fi else 1) * int(choice(rng, [0, 1]))
        # (a coefficient array of the right rank: one column per task for the multitask solver)
        bad = (np.zeros((rows, prob["T"])) if prob.get("T") else np.zeros(rows)).tolist()
        ops.append(dict(op="solve", start="point", w0=bad, knobs=dict(k), faults={}, storage=prob["storage"],
                        raw_w0=True))
    plan = P._mk("C20", seed, run, engine, prob, ops, rng)
    plan["record_final"] = True
    if entry is not None:
        plan["forced_entry"] = int(entry)
    return plan


def make_plan(check, seed, run, engine, tier="quick", entry=None):
    if check == "C13":
        return plan_C13(seed, run, engine, tier, entry)
    if check == "C19":
        return plan_C19(seed, run, engine, tier, entry)
    if check == "C20":
        return plan_C20(seed, run, engine, tier, entry)
    if check == "C09":
        from . import rngcheck
        return rngcheck.make_plan(seed, run, engine, tier)
    raise KeyError(check)
