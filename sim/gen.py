"""Seeded generation of problems, families, knobs and faults.

One integer decides everything: every draw below comes from a numpy Generator(PCG64) built
from SeedSequence([VERIF_SEED, check number, run index]), in a fixed order.
"""
import numpy as np

from . import binding as B


def rng_for(seed, check, run):
    cid = int(check[1:]) if isinstance(check, str) else int(check)
    return np.random.Generator(np.random.PCG64(np.random.SeedSequence([int(seed), cid, int(run)])))


def choice(rng, seq, p=None):
    return seq[int(rng.choice(len(seq), p=p))]


def sig3(a, digits=6):
    """Round to a few significant digits so that plans are short and replays exact."""
    a = np.asarray(a, dtype=float)
    with np.errstate(all="ignore"):
        mag = np.where(a == 0, 1.0, 10.0 ** np.floor(np.log10(np.abs(np.where(a == 0, 1.0, a)))))
    return np.round(a / mag, digits - 1) * mag


# ---------------------------------------------------------------------- data

DEGEN_KINDS = ["zero_col", "zero_col_last", "dup_col", "const_col", "zero_y", "const_y",
               "one_feature", "scale_1e6", "scale_1e-6", "zero_group", "n_lt_p", "scale_1e9",
               "scale_1e-9", "zero_row"]


def gen_X(rng, n, p, rho=None, density=None, scale_decades=None):
    if rho is None:
        rho = choice(rng, [0.0, 0.3, 0.6, 0.9, 0.99, 0.999], p=[.2, .2, .25, .2, .1, .05])
    Z = rng.standard_normal((n, p))
    X = np.empty((n, p))
    X[:, 0] = Z[:, 0]
    for j in range(1, p):
        X[:, j] = rho * X[:, j - 1] + np.sqrt(1 - rho * rho) * Z[:, j]
    if density is None:
        density = choice(rng, [1.0, 0.7, 0.4], p=[.6, .25, .15])
    if density < 1:
        X = X * (rng.random((n, p)) < density)
    if scale_decades is None:
        scale_decades = choice(rng, [0.0, 0.5, 1.0, 3.0], p=[.4, .3, .2, .1])
    if scale_decades:
        X = X * 10.0 ** rng.uniform(-scale_decades, scale_decades, p)
    X = sig3(X, 5)
    return X, dict(rho=rho, density=density, scale_decades=scale_decades)


def gen_target(rng, X, kind, T=2):
    n, p = X.shape
    k = max(1, min(p, int(rng.integers(1, 4))))
    supp = rng.choice(p, k, replace=False)
    colnorm = np.sqrt((X ** 2).sum(axis=0)) + 1e-12
    if kind == "multi":
        W = np.zeros((p, T))
        W[supp] = rng.standard_normal((k, T)) / colnorm[supp, None] * np.sqrt(n)
        Y = X @ W + 0.3 * rng.standard_normal((n, T)) + rng.choice([0.0, 2.0, -5.0]) \
            + rng.standard_normal(T)
        return sig3(Y, 5)
    w = np.zeros(p)
    w[supp] = rng.standard_normal(k) / colnorm[supp] * np.sqrt(n)
    u = X @ w
    if kind == "reg":
        off = choice(rng, [0.0, 1.0, -7.0, 30.0], p=[.4, .3, .2, .1])
        return sig3(u + 0.3 * rng.standard_normal(n) + off, 5)
    if kind == "bin":
        y = np.where(u + 0.5 * rng.standard_normal(n) + rng.choice([0.0, 0.5]) > 0, 1.0, -1.0)
        if np.all(y == y[0]):
            y[0] = -y[0]
        return y
    if kind == "count":
        yc = rng.poisson(np.exp(np.clip(0.5 * u, -2, 2))).astype(float)
        if not np.any(yc > 0):
            yc[int(rng.integers(n))] = 1.0      # all-zero counts have no finite maximum likelihood
        return yc
    if kind == "pos":
        return sig3(np.exp(np.clip(0.5 * u, -2, 2)) * rng.gamma(2.0, 0.5, n) + 0.05, 5)
    if kind == "surv":
        tm = sig3(rng.weibull(1.0, n) * np.exp(-np.clip(0.3 * u, -2, 2)) + 0.01, 3)
        if rng.random() < 0.6:       # ties
            tm = np.round(tm * 3 + 0.5) / 3
        s = (rng.random(n) < 0.7).astype(float)
        if s.sum() == 0:
            s[0] = 1.0
        return np.column_stack([tm, s])
    raise ValueError(kind)


def apply_degen(rng, X, y, kind, degen):
    X = X.copy()
    y = np.array(y, dtype=float, copy=True)
    n, p = X.shape
    info = dict(kind=degen)
    if degen == "zero_col":
        j = int(rng.integers(p))
        X[:, j] = 0
        info["col"] = j
    elif degen == "zero_col_last":
        X[:, p - 1] = 0
        info["col"] = p - 1
    elif degen == "dup_col" and p >= 2:
        a, b = rng.choice(p, 2, replace=False)
        X[:, b] = X[:, a]
        info["cols"] = [int(a), int(b)]
    elif degen == "const_col":
        j = int(rng.integers(p))
        X[:, j] = choice(rng, [1.0, 3.0, -2.0])
        info["col"] = j
    elif degen == "zero_y" and kind in ("reg", "multi"):
        y[...] = 0
    elif degen == "const_y" and kind in ("reg", "multi"):
        y[...] = choice(rng, [1.0, -3.5])
    elif degen == "const_y" and kind in ("count", "pos"):
        # a constant target of any magnitude: the optimum is the intercept log(c) alone
        y[...] = choice(rng, [1.0, 3.0, 1000.0] if kind == "count" else [1.0, 50.0, 1e-3], p=[.2, .2, .6])
        info["const"] = float(np.ravel(y)[0])
    elif degen == "scale_1e6":
        j = int(rng.integers(p))
        X[:, j] *= 1e6
        info["col"] = j
    elif degen == "scale_1e-6":
        j = int(rng.integers(p))
        X[:, j] *= 1e-6
        info["col"] = j
    elif degen == "zero_row" and n >= 3:
        # a sample without any feature: an all-zero column of the SVC dual design
        i = int(rng.integers(n))
        X[i, :] = 0
        info["row"] = i
    elif degen in ("scale_1e9", "scale_1e-9"):
        j = int(rng.integers(p))
        X[:, j] *= 1e9 if degen == "scale_1e9" else 1e-9
        info["col"] = j
    return X, y, info


# ---------------------------------------------------------------------- families

# penalty variants: name -> (penalty class, builder(rng, p, G))
def _weights(rng, p, zeros):
    w = sig3(rng.uniform(0.2, 3.0, p), 3)
    if zeros and p >= 2:
        nz = int(rng.integers(1, max(2, p // 3 + 1)))
        w[rng.choice(p, nz, replace=False)] = 0.0
    return w.tolist()


SEP_VARIANTS = {
    "L1": ("L1", lambda r, p: dict()),
    "L1+": ("L1", lambda r, p: dict(positive=True)),
    "WL1": ("WeightedL1", lambda r, p: dict(weights=_weights(r, p, False))),
    "WL1z": ("WeightedL1", lambda r, p: dict(weights=_weights(r, p, True))),
    "WL1+": ("WeightedL1", lambda r, p: dict(weights=_weights(r, p, bool(r.random() < .5)),
                                             positive=True)),
    "EN": ("L1_plus_L2", lambda r, p: dict(l1_ratio=float(choice(r, [0.1, 0.5, 0.9, 1.0])))),
    "EN+": ("L1_plus_L2", lambda r, p: dict(l1_ratio=float(choice(r, [0.1, 0.5, 0.9])),
                                            positive=True)),
    "MCP": ("MCPenalty", lambda r, p: dict(gamma=float(choice(r, [3.0, 10.0, 50.0])))),
    "MCP+": ("MCPenalty", lambda r, p: dict(gamma=float(choice(r, [3.0, 10.0])), positive=True)),
    "WMCP": ("WeightedMCPenalty", lambda r, p: dict(gamma=float(choice(r, [3.0, 10.0])),
                                                    weights=_weights(r, p, False))),
    "WMCP+": ("WeightedMCPenalty", lambda r, p: dict(gamma=float(choice(r, [3.0, 10.0])),
                                                     weights=_weights(r, p, False), positive=True)),
    "SCAD": ("SCAD", lambda r, p: dict(gamma=float(choice(r, [3.7, 10.0])))),
    "L05": ("L0_5", lambda r, p: dict()),
    "L23": ("L2_3", lambda r, p: dict()),
    "LogSum": ("LogSumPenalty", lambda r, p: dict(eps=float(choice(r, [0.1, 1.0, 5.0])))),
    "Pos": ("PositiveConstraint", lambda r, p: dict()),
    "Box": ("IndicatorBox", lambda r, p: dict()),
    "L2": ("L2", lambda r, p: dict()),
    "SLOPE": ("SLOPE", lambda r, p: dict()),
}
CONVEX_SEP = ["L1", "L1+", "WL1", "WL1z", "WL1+", "EN", "EN+"]
NONCONVEX_SEP = ["MCP", "MCP+", "WMCP", "SCAD", "L05", "L23", "LogSum"]
POSITIVE_SEP = ["L1+", "WL1+", "EN+", "MCP+", "WMCP+", "Pos"]

# catalogue:  (solver, datafit, penalty variants, storages, intercept options)
CATALOG = [
    ("AndersonCD", "Quadratic", CONVEX_SEP + NONCONVEX_SEP + ["MCP+", "WMCP+", "Pos"],
     ["F", "C", "csc"], [False, True]),
    ("AndersonCD", "WeightedQuadratic", ["L1", "WL1", "EN", "L1+", "MCP"], ["F", "csc"], [False, True]),
    ("AndersonCD", "Huber", ["L1", "WL1z", "EN", "MCP"], ["F", "csc"], [False, True]),
    ("AndersonCD", "Logistic", ["L1", "WL1", "EN", "L1+", "MCP"], ["F", "csc"], [False, True]),
    ("AndersonCD", "QuadraticSVC", ["Box"], ["F", "csc"], [False]),
    ("ProxNewton", "Logistic", ["L1", "WL1", "EN", "L1+"], ["F", "csc"], [False, True]),
    ("ProxNewton", "Poisson", ["L1", "EN", "WL1"], ["F", "csc"], [False, True]),
    ("ProxNewton", "Gamma", ["L1", "EN"], ["F", "csc"], [False, True]),
    ("ProxNewton", "Cox", ["L1", "EN"], ["F", "csc"], [False]),
    ("ProxNewton", "Quadratic", ["L1", "EN", "L1+", "WL1"], ["F", "csc"], [False, True]),
    ("GroupBCD", "QuadraticGroup", ["G", "Gz", "G+"], ["F", "csc"], [False, True]),
    ("GroupBCD", "QuadraticGroup", ["SG"], ["F", "csc"], [False, True]),
    ("GroupProxNewton", "LogisticGroup", ["G", "G+"], ["F"], [False, True]),
    ("MultiTaskBCD", "QuadraticMultiTask", ["L21", "L205", "BMCP", "BSCAD"], ["F", "csc"],
     [False, True]),
    ("GramCD", None, ["L1", "WL1", "EN", "L1+", "MCP", "SCAD"], ["F", "csc"], [False]),
    ("FISTA", "Quadratic", ["L1", "EN", "WL1", "SLOPE", "MCP", "L1+"], ["F", "csc"], [False]),
    ("FISTA", "Logistic", ["L1", "EN"], ["F", "csc"], [False]),
    ("FISTA", "QuadraticSVC", ["Box"], ["F", "csc"], [False]),
    ("FISTA", "Huber", ["L1"], ["F", "csc"], [False]),
    ("LBFGS", "Logistic", ["L2"], ["F", "csc"], [False]),
    ("LBFGS", "Quadratic", ["L2"], ["F", "csc"], [False]),
    ("LBFGS", "Poisson", ["L2"], ["F"], [False]),
    ("LBFGS", "Cox", ["L2"], ["F", "csc"], [False]),
    ("PDCD_WS", "SqrtQuadratic", ["L1", "WL1"], ["F"], [False]),
    ("PDCD_WS", "Pinball", ["L1"], ["F"], [False]),
]


def gen_groups(rng, p):
    """Random partition of range(p) into groups, contiguous or interleaved."""
    G = int(rng.integers(1, max(2, min(p, 6)) + 1))
    G = min(G, p)
    if rng.random() < 0.5:
        cuts = np.sort(rng.choice(np.arange(1, p), G - 1, replace=False)) if G > 1 else []
        ptr = np.concatenate([[0], cuts, [p]]).astype(int)
        idx = np.arange(p)
    else:
        perm = rng.permutation(p)
        cuts = np.sort(rng.choice(np.arange(1, p), G - 1, replace=False)) if G > 1 else []
        ptr = np.concatenate([[0], cuts, [p]]).astype(int)
        idx = perm
    return ptr.tolist(), idx.tolist()


def build_family(rng, entry, variant, p, fi):
    solver, datafit, _, _, _ = entry
    fam = dict(solver=solver, datafit=datafit, dargs={}, penalty=None, pargs={})
    if variant in SEP_VARIANTS:
        pname, mk = SEP_VARIANTS[variant]
        fam["penalty"] = pname
        fam["pargs"] = mk(rng, p)
    elif variant in ("G", "Gz", "G+", "SG"):
        ptr, idx = gen_groups(rng, p)
        G = len(ptr) - 1
        wts = sig3(rng.uniform(0.3, 2.5, G), 3)
        if variant == "Gz" and G >= 2:
            wts[int(rng.integers(G))] = 0.0
        if variant == "G+" and G >= 2 and rng.random() < 0.3:
            # a zero weight under positivity: the group is unpenalised but still constrained
            wts[int(rng.integers(G))] = 0.0
        fam["dargs"] = dict(grp_ptr=ptr, grp_indices=idx)
        if variant == "SG":
            fam["penalty"] = "WeightedL1GroupL2"
            fam["pargs"] = dict(weights_groups=wts.tolist(),
                                weights_features=sig3(rng.uniform(0.0, 1.5, p), 3).tolist(),
                                grp_ptr=ptr, grp_indices=idx)
        else:
            fam["penalty"] = "WeightedGroupL2"
            fam["pargs"] = dict(weights=wts.tolist(), grp_ptr=ptr, grp_indices=idx,
                                positive=(variant == "G+"))
    elif variant in ("L21", "L205", "BMCP", "BSCAD"):
        fam["penalty"] = {"L21": "L2_1", "L205": "L2_05", "BMCP": "BlockMCPenalty",
                          "BSCAD": "BlockSCAD"}[variant]
        if variant in ("BMCP", "BSCAD"):
            fam["pargs"] = dict(gamma=float(choice(rng, [3.7, 10.0])))
    else:
        raise KeyError(variant)
    fam["variant"] = variant
    return fam


def gen_sample_weights(rng, n):
    """Positive sample weights on several scales: the datafit normalises by the weight sum, so a
    constant or a step that normalises by the sample count instead is only wrong when the two
    differ - and only dangerous (steps longer than 2 / L) when the weights sum to less than n / 2."""
    sw = rng.uniform(0.2, 3.0, n)
    mode = choice(rng, ["plain", "sum1", "small", "minority"], p=[.4, .25, .2, .15])
    if mode == "sum1":
        sw = sw / sw.sum()
    elif mode == "small":
        sw = sw * 0.05
    elif mode == "minority" and n >= 3:
        keep = rng.choice(n, max(1, n // 5), replace=False)
        sw = np.full(n, 1e-3)
        sw[keep] = 1.0
    return sig3(sw, 3).tolist()


def finish_family(rng, fam, data, fi, alpha_frac=None):
    """Choose datafit arguments and the regularisation strength (as a fraction of the
    reference model's critical strength where one exists)."""
    n = len(data["X"])
    p = len(data["X"][0])
    dn = fam["datafit"]
    if dn == "WeightedQuadratic":
        fam["dargs"] = dict(sample_weights=gen_sample_weights(rng, n))
    elif dn == "Huber":
        ystd = float(np.std(data["y"])) + 1e-3
        fam["dargs"] = dict(delta=float(sig3(ystd * choice(rng, [0.3, 1.0, 3.0]), 3)))
    elif dn == "Cox":
        fam["dargs"] = dict(use_efron=bool(rng.random() < 0.5))
    elif dn == "Pinball":
        fam["dargs"] = dict(quantile_level=float(choice(rng, [0.3, 0.5, 0.8])))
    _admissible_gamma(fam, data)
    if alpha_frac is None:
        alpha_frac = choice(rng, [2.0, 1.0001, 0.9999, 0.9, 0.5, 0.2, 0.1, 0.03, 0.01, 0.001],
                            p=[.03, .03, .04, .1, .2, .2, .2, .1, .07, .03])
    pname = fam["penalty"]
    pargs = fam["pargs"]
    amax = reference_alpha_max(fam, data, fi)
    fam["alpha_max_rm"] = amax
    fam["alpha_frac"] = alpha_frac
    if pname == "IndicatorBox":
        pargs["alpha"] = float(choice(rng, [0.01, 0.1, 1.0, 10.0]))
    elif pname == "PositiveConstraint":
        pass
    elif pname == "SLOPE":
        base = amax * alpha_frac
        pargs["alphas"] = sig3(base * np.linspace(1.0, choice(rng, [1.0, 0.5, 0.1]), p), 6).tolist()
    elif pname == "L2":
        pargs["alpha"] = float(sig3(max(amax, 1e-3) * alpha_frac, 6))
    else:
        pargs["alpha"] = float(sig3(max(amax, 1e-8) * alpha_frac, 6))
    return fam


def _admissible_gamma(fam, data):
    """Non-convex penalties are only specified inside their well-posed step range
    (MCP: gamma > weight_j / L_j, SCAD: gamma > 1 + 1 / L_j, with L_j the coordinate
    curvature the solver steps with).  Keep the generated gamma inside it, with a margin."""
    pname = fam["penalty"]
    if pname not in ("MCPenalty", "WeightedMCPenalty", "SCAD", "BlockMCPenalty", "BlockSCAD"):
        return
    X = np.asarray(data["X"], dtype=float)
    n = X.shape[0]
    dn = fam["datafit"]
    if dn == "WeightedQuadratic":
        s = np.asarray(fam["dargs"]["sample_weights"], dtype=float)
        L = (s[:, None] * X ** 2).sum(axis=0) / s.sum()
    elif dn in ("Logistic", "LogisticGroup"):
        L = (X ** 2).sum(axis=0) / (4 * n)
    else:
        L = (X ** 2).sum(axis=0) / n
    pos = L[L > 0]
    if len(pos) == 0:
        return
    wmax = float(np.max(fam["pargs"].get("weights", [1.0])))
    inv = max(wmax, 1.0) / float(pos.min())
    g = fam["pargs"]["gamma"]
    need = 1.5 * inv if "MCP" in pname else 1.5 * (1 + inv)
    if g < need:
        fam["pargs"]["gamma"] = float(sig3(need, 4))


def reference_alpha_max(fam, data, fi):
    """Critical strength of the L1-like surrogate of the family's penalty (reference model)."""
    pname = fam["penalty"]
    pa = dict(fam["pargs"])
    pa["alpha"] = 1.0
    surrogate = pname
    if pname in ("SCAD", "L0_5", "L2_3", "LogSumPenalty", "IndicatorBox", "PositiveConstraint",
                 "L2", "SLOPE"):
        surrogate, pa = "L1", dict(alpha=1.0)
    if pname in ("L2_05", "BlockMCPenalty", "BlockSCAD"):
        surrogate, pa = "L2_1", dict(alpha=1.0)
    if pname == "WeightedL1GroupL2":
        surrogate = "WeightedGroupL2"
        pa = dict(alpha=1.0, weights=np.asarray(pa["weights_groups"]) + 1e-3,
                  grp_ptr=pa["grp_ptr"], grp_indices=pa["grp_indices"])
    f2 = dict(fam, penalty=surrogate, pargs=pa)
    try:
        pr = B.rm_problem(data, f2, pa, fi)
        if fam["datafit"] in ("SqrtQuadratic", "Pinball", "QuadraticSVC"):
            g, _ = pr.grad(np.zeros(pr.p), 0.0) if fam["datafit"] != "SqrtQuadratic" else \
                (pr.X.T @ pr.loss.grad(np.zeros(pr.n)), 0.0)
            return float(np.max(np.abs(g)))
        return float(pr.alpha_max()[0])
    except Exception:
        X = np.asarray(data["X"], dtype=float)
        return float(np.max(np.abs(X.T @ np.ones(len(X)))) / len(X))


# ---------------------------------------------------------------------- knobs, budgets, faults

EPOCH_GRID = [1, 2, 3, 4, 5, 6, 7, 8, 9, 10, 11, 12, 13, 14, 15, 17, 18, 19, 20, 21, 24, 25, 30, 31,
              60, 61]
ITER_GRID = [0, 1, 2, 3, 5]


def gen_knobs(rng, solver, p, fi, gscale, ample=False):
    k = dict()
    tol_exp = choice(rng, [2, 3, 4, 5, 6, 7, 8], p=[.1, .15, .2, .2, .15, .1, .1])
    k["tol"] = float(sig3(max(gscale, 1e-12) * 10.0 ** (-tol_exp), 3))
    if solver in ("AndersonCD", "ProxNewton", "GroupBCD", "GroupProxNewton", "MultiTaskBCD",
                  "PDCD_WS"):
        k["p0"] = int(choice(rng, [1, 2, 3, 10, max(p, 1)]))
    if solver in ("AndersonCD", "ProxNewton", "GroupBCD", "MultiTaskBCD"):
        k["ws_strategy"] = choice(rng, ["subdiff", "fixpoint"], p=[.6, .4])
    if solver in B.SUPPORTS_INTERCEPT:
        k["fit_intercept"] = bool(fi)
    if solver == "MultiTaskBCD":
        k["use_acc"] = bool(rng.random() < 0.8)
    if solver == "GramCD":
        k["greedy_cd"] = bool(rng.random() < 0.5)
        k["use_acc"] = bool((not k["greedy_cd"]) and rng.random() < 0.6)
    if solver == "FISTA":
        k["opt_strategy"] = choice(rng, ["subdiff", "fixpoint"], p=[.7, .3])
    inner = B.INNER_BUDGET.get(solver)
    if ample:
        k["max_iter"] = {"FISTA": 20000, "LBFGS": 2000, "GramCD": 5000}.get(solver, 300)
        if inner:
            k[inner] = 3000 if inner == "max_epochs" else 300
    else:
        k["max_iter"] = int(choice(rng, [0, 1, 2, 3, 5, 20, 100], p=[.05, .1, .1, .1, .15, .25, .25]))
        if solver in ("FISTA", "GramCD", "LBFGS"):
            k["max_iter"] = int(choice(rng, [0, 1, 2, 6, 7, 13, 50, 500, 3000]))
        if inner:
            k[inner] = int(choice(rng, EPOCH_GRID + [200, 1000, 3000]))
    return k


def gen_faults(rng, solver, rate=0.5):
    f = {}
    if rng.random() < rate * 0.6:
        f["ws_order"] = int(rng.integers(1 << 30))
    if solver in ("AndersonCD", "GroupBCD", "MultiTaskBCD", "GramCD") and rng.random() < rate * 0.7:
        n = int(rng.integers(1, 4))
        aa = {}
        for _ in range(n):
            aa[str(int(rng.integers(0, 6)))] = choice(
                rng, ["singular", "huge", "nan", "inf", "sumzero", "noise", "negate"])
        f["aa"] = aa
    return f


def gen_start_point(rng, p, fi, T, scale, support=None):
    """An arbitrary (feasibility is the solver's business) starting point."""
    k = int(rng.integers(0, p + 1)) if support is None else support
    shape = (p + fi, T) if T else (p + fi,)
    w = np.zeros(shape)
    if k:
        idx = rng.choice(p, k, replace=False)
        w[idx] = rng.standard_normal((k,) + shape[1:]) * scale
    if fi and rng.random() < 0.7:
        w[p] = rng.standard_normal(shape[1:]) * scale if T else float(rng.standard_normal() * scale)
    return sig3(w, 4).tolist()


def gen_problem(rng, entry=None, variant=None, degen=None, n=None, p=None, fi=None, storage=None,
                alpha_frac=None):
    if entry is None:
        entry = choice(rng, CATALOG)
    solver, datafit, variants, storages, fis = entry
    if variant is None:
        variant = choice(rng, variants)
    if fi is None:
        fi = bool(choice(rng, fis))
    if storage is None:
        storage = choice(rng, storages)
    kind = B.DATAFIT_KIND[datafit]
    if n is None:
        n = int(rng.integers(3, 26))
    if p is None:
        p = int(rng.integers(1, 17))
    if degen == "one_feature":
        p = 1
    if degen == "n_lt_p":
        n, p = int(rng.integers(2, 6)), int(rng.integers(6, 15))
    if solver == "GramCD" and degen is None:
        pass
    T = int(rng.integers(1, 4)) if kind == "multi" else None
    X, xinfo = gen_X(rng, n, p)
    y = gen_target(rng, X, kind, T or 2)
    dinfo = None
    if degen:
        X, y, dinfo = apply_degen(rng, X, y, kind, degen)
    data = dict(X=X.tolist(), y=np.asarray(y).tolist(), kind=kind, degen=dinfo, gen=xinfo)
    fam = build_family(rng, entry, variant, p, fi)
    if degen == "zero_group" and fam["penalty"] in ("WeightedGroupL2", "WeightedL1GroupL2"):
        ptr, idx = fam["pargs"]["grp_ptr"], fam["pargs"]["grp_indices"]
        g = int(rng.integers(len(ptr) - 1))
        Xa = np.array(data["X"])
        Xa[:, idx[ptr[g]:ptr[g + 1]]] = 0
        data["X"] = Xa.tolist()
        data["degen"] = dict(kind="zero_group", group=g)
    fam = finish_family(rng, fam, data, fi, alpha_frac)
    if degen in ("scale_1e6", "scale_1e9") and "alpha" in fam["pargs"] and p >= 2 \
            and fam["penalty"] not in ("IndicatorBox",) and datafit != "QuadraticSVC" \
            and rng.random() < 0.6:
        # "widely different feature scales": the critical strength is dominated by the huge
        # column; a strength chosen relative to it leaves every other feature inactive and the
        # run says nothing about them.  Choose it relative to the remaining columns instead.
        Xr = np.array(data["X"], dtype=float)
        Xr[:, data["degen"]["col"]] = 0.0
        rest = reference_alpha_max(fam, dict(data, X=Xr.tolist()), fi)
        if np.isfinite(rest) and rest > 0:
            fam["alpha_max_rest"] = float(rest)
            fam["pargs"]["alpha"] = float(sig3(rest * fam["alpha_frac"], 6))
    return dict(family=fam, data=data, fi=fi, storage=storage, T=T)
