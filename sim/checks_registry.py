"""Registry: per property, how plans are generated and executed, and the tier budgets."""
from . import plans

# (engine, share of the wall budget, nominal run count) per tier
TIERS = {
    "quick": dict(budget_s=100, phases=[("compiled", 0.65), ("twin", 0.35)], count=2000000,
                  run_cap=30),
    "thorough": dict(budget_s=1500, phases=[("compiled", 0.65), ("twin", 0.35)], count=40000000,
                     run_cap=60),
}

SOLVER_LEVEL = {"C01", "C02", "C03", "C04", "C05", "C16", "C17"}


# every EST_SHARE-th run of these solver-level checks is an estimator-level history, judged by
# the same oracles through the estimator API (n_iter_, warm_start refits, positive=True, ...)
EST_SHARE = {"C17": 6, "C05": 6, "C04": 8, "C03": 12, "C02": 6, "C16": 5}


def make_plan(check, seed, run, engine, tier="quick", entry=None):
    share = EST_SHARE.get(check)
    if share and entry is None and run % share == share - 1:
        from . import plans_est
        return plans_est.make_aux_plan(check, seed, run, engine, tier)
    if check in plans.PLANNERS:
        kw = {}
        if check in ("C03", "C04", "C17"):
            kw["full"] = (tier == "thorough")
        plan = plans.PLANNERS[check](seed, run, engine, **kw) if entry is None else \
            plans.plan_with_entry(check, seed, run, engine, entry, **kw)
        return plan
    from . import plans_est
    return plans_est.make_plan(check, seed, run, engine, tier, entry)


def execute(check, plan):
    if plan.get("level") == "rng":
        from . import rngcheck
        return rngcheck.run_plan(plan)
    if plan.get("level") == "reuse":
        from . import reuse
        return reuse.run_plan(plan)
    if plan.get("level", "solver") == "solver":
        from . import runner
        return runner.run_plan(plan)
    from . import runner_est
    return runner_est.run_plan(plan)


def worker_init(check):
    """Called once in every process that executes plans, before the first plan."""
    if check == "C18":
        from . import fresh, runner_est
        fresh.start(runner_est.single_fit)


def warm(check):
    """Import everything a worker needs before forking."""
    from . import runner, oracles, session, seams, binding, gen  # noqa
    import skglm.solvers, skglm.datafits, skglm.penalties, skglm.estimators  # noqa
    import skglm.experimental.pdcd_ws, skglm.experimental.sqrt_lasso  # noqa
    import skglm.experimental.quantile_regression, skglm.experimental.reweighted  # noqa


def n_entries(check):
    from . import gen
    if check in SOLVER_LEVEL:
        return len(gen.CATALOG)
    from . import plans_est
    return plans_est.n_entries(check)


def rule(check):
    from .driver import RULES
    return RULES.get(check, RULES["default"])


ASSUMPTIONS_COMMON = [
    "the reference model (sim/refmodel: losses, penalties, subdifferentials, proxes, written from "
    "the documented formulas, self-tested by finite differences / brute force / scikit-learn / "
    "celer on every run) is the trusted base of every oracle",
    "problems are small (n <= 30 samples, p <= 24 features); a clean batch is evidence over the "
    "sampled seeds, schedules and faults, not proof",
    "the interpreted twin (NUMBA_DISABLE_JIT=1) executes the same source under Python semantics; "
    "the compiled sample is reported separately in runs_by_engine",
    "comparisons against a tolerance carry a relative slack of 1e-3 and a rounding allowance of "
    "1e5 * eps * (magnitudes entering the recomputed gradient)",
]


def assumptions(check):
    return list(ASSUMPTIONS_COMMON)


def samples(check, seed, tier):
    """A few of the plans this run executed, written out (regenerated from the seed; plan
    generation is a pure function of (check, seed, run index))."""
    out = []
    for run in (0, 1, 2):
        try:
            plan = make_plan(check, seed, run, "twin", tier)
        except Exception as e:  # pragma: no cover
            out.append(dict(run=run, error=repr(e)))
            continue
        if plan.get("level") == "est":
            out.append(dict(run=run, level="estimator history",
                            datasets=[[len(d["X"]), len(d["X"][0]), d["kind"]] for d in plan["datasets"]],
                            ops=[_short_est_op(o) for o in plan["ops"]]))
            continue
        if plan.get("level") == "rng":
            out.append(dict(run=run, level="rng", matrix_kind=plan["data"]["gen"]["kind"],
                            shape=[len(plan["data"]["X"]), len(plan["data"]["X"][0])],
                            generator_seeds=plan["rng_draws"][:4] + ["... %d draws" % len(plan["rng_draws"])],
                            adversarial_components=plan["adversarial"]))
            continue
        if plan.get("level") == "reuse":
            out.append(dict(run=run, level="solver-object reuse history", mode=plan["mode"],
                            family={k: plan["family"][k] for k in ("solver", "datafit", "penalty")},
                            knobs=plan["knobs"], storage=plan["storage"]))
            continue
        if plan.get("matrix"):
            out.append(dict(run=run, level="composition matrix cell", cell=plan.get("cell"),
                            scheduler_draw=plan.get("draws"), op=_short_op(plan["ops"][0])))
            continue
        d = plan["data"]
        out.append(dict(run=run, family={k: plan["family"][k] for k in
                                         ("solver", "datafit", "penalty", "variant")
                                         if k in plan["family"]},
                        shape=[len(d["X"]), len(d["X"][0])], degenerate=d.get("degen"),
                        storage=plan.get("storage"),
                        ops=[_short_op(o) for o in plan["ops"]]))
    return out


def _short_op(o):
    s = {k: v for k, v in o.items() if k not in ("w0",)}
    if "w0" in o and o["w0"] is not None:
        s["w0"] = "<explicit start point>"
    if "budgets" in s and len(s["budgets"]) > 12:
        s["budgets"] = s["budgets"][:12] + ["... %d budgets" % len(o["budgets"])]
    return s


def _short_est_op(o):
    s = dict(o)
    if "args" in s:
        a = dict(s["args"])
        for k in ("weights",):
            if isinstance(a.get(k), list) and len(a[k]) > 6:
                a[k] = a[k][:6] + ["..."]
        if "family" in a:
            a["family"] = {k: a["family"][k] for k in ("solver", "datafit", "penalty")}
        s["args"] = a
    return s


CHECK_TIERS = {
    "C18": {"quick": dict(phases=[("twin", 0.5), ("compiled", 0.5)], run_cap=60),
            "thorough": dict(phases=[("twin", 0.5), ("compiled", 0.5)], run_cap=120)},
}
CHECK_TIERS["C13"] = {"quick": dict(phases=[("compiled", 0.55), ("twin", 0.45)], count=1000000, run_cap=30),
                      "thorough": dict(phases=[("compiled", 0.8), ("twin", 0.2)], count=20000000, run_cap=60)}
# (C20: the twin raises IndexError on every positive out-of-range index and needs no compilation:
# a third, cheap witness that visits all catalogue entries in every batch)
CHECK_TIERS["C20"] = {"quick": dict(phases=[("compiled", 0.3), ("bounds", 0.45), ("twin", 0.25)], count=6000, run_cap=30),
                      "thorough": dict(phases=[("compiled", 0.3), ("bounds", 0.5), ("twin", 0.2)], count=200000, run_cap=60)}
CHECK_TIERS["C19"] = {"quick": dict(phases=[("compiled", 0.7), ("twin", 0.3)], count=2000000, run_cap=15),
                      "thorough": dict(phases=[("compiled", 0.7), ("twin", 0.3)], count=40000000, run_cap=60)}
CHECK_TIERS["C09"] = {"quick": dict(budget_s=80, phases=[("compiled", 0.6), ("twin", 0.4)], count=2000000, run_cap=30),
                      "thorough": dict(budget_s=600, phases=[("compiled", 0.6), ("twin", 0.4)], count=40000000, run_cap=60)}
