"""Solver-level history machine: executes a plan (family + data + operations) against the
real skglm code under the seams, and records everything the oracles need.

Operations
    {"op": "solve", "start": "cold"|"cold_buf"|"buffers"|"point", "w0": [...], "knobs": {...},
     "faults": {...}, "storage": "F"|...}
    {"op": "grid",  ... same as solve ..., "budgets": [[max_iter, inner], ...]}   crash points
    {"op": "set",   "params": {"alpha": ..}, "how": "inplace"|"new"}
    {"op": "path",  "alphas": [...], "w0": [...]|None, "knobs": {...}, "storage": ...}
    {"op": "quiesce", "knobs": {...}}    fault-free, ample budget, from the surviving buffers
"""
import copy
import hashlib
import traceback
import numpy as np
import scipy.sparse as sp

from . import binding as B
from . import runcap
from .seams import Seams, SimInterrupt


def _bytes(a):
    a = np.ascontiguousarray(np.asarray(a, dtype=float))
    return a.tobytes()


def classify_exception(exc):
    """Where did it come from and what kind is it."""
    runcap.check()      # (a wall-cap hit that surfaced as another exception is not the library's)
    tb = traceback.extract_tb(exc.__traceback__)
    files = [f.filename for f in tb]
    in_skglm = any("/skglm/" in f for f in files)
    in_sim = files and "/verif/sim/" in files[-1] and not in_skglm
    last = tb[-1] if tb else None
    last_skglm = [f for f in tb if "/skglm/" in f.filename]
    where = None
    if last_skglm:
        f = last_skglm[-1]
        where = f"{f.filename.split('/skglm/')[-1]}:{f.name}"
    return dict(type=type(exc).__name__, module=type(exc).__module__, msg=str(exc)[:300],
                where=where, in_skglm=in_skglm, harness=bool(in_sim),
                last=f"{last.filename}:{last.lineno}" if last else None)


class Session:
    def __init__(self, plan):
        self.plan = plan
        self.family = copy.deepcopy(plan["family"])
        self.data = plan["data"]
        self.solver_name = self.family["solver"]
        self.dname = self.family["datafit"]
        self.pname = self.family["penalty"]
        self.pargs = copy.deepcopy(self.family["pargs"])
        self.Xd = B.design_for_solver(self.data["X"], self.data["y"], self.dname)
        self.y = B.target_for_solver(self.data["y"], self.dname)
        self.multitask = self.y.ndim == 2 and self.dname == "QuadraticMultiTask"
        self.n_s, self.p_s = self.Xd.shape           # shapes as the solver sees them
        self.containers = {}
        self.datafit = None
        self.penalty = None
        self.init_storage = None
        self.w = None      # client-held buffers
        self.Xw = None
        self.log = hashlib.sha256()
        self.events = []
        self.logical = dict(solves=0, outer=0, epochs=0, ops=0)
        self.fired = {}
        self.probes = {}
        self.seam_missing = set()
        self.hist_max_abs_c = 0.0     # largest extrapolation coefficient mass seen so far

    # ------------------------------------------------------------------ helpers
    def container(self, storage):
        if storage not in self.containers:
            self.containers[storage] = B.make_container(self.Xd, storage)
        return self.containers[storage]

    def get_penalty(self):
        if self.penalty is None:
            self.penalty = B.build_penalty(self.pname, self.pargs)
        return self.penalty

    def get_datafit(self, X, storage):
        if self.dname is None:
            return None
        if self.datafit is None:
            self.datafit = B.build_datafit(self.dname, self.family.get("dargs"))
            self.init_storage = None
        if self.init_storage != storage:
            # "initialised on the data, as the documented examples do"
            if sp.issparse(X):
                if hasattr(self.datafit, "initialize_sparse"):
                    self.datafit.initialize_sparse(X.data, X.indptr, X.indices, self.y)
            else:
                if hasattr(self.datafit, "initialize"):
                    self.datafit.initialize(X, self.y)
            self.init_storage = storage
        return self.datafit

    def _prevalidated(self, X, knobs):
        """Composition matrix only: validation inspects attribute *names*, so it is first run
        on the plain (uncompiled) objects; a refusal raised there is the cell's outcome and no
        jitclass has to be compiled for it."""
        solver = B.build_solver(self.solver_name, knobs)
        df = B.build_datafit(self.dname, self.family.get("dargs"), compiled=False)
        pen = B.build_penalty(self.pname, self.pargs, compiled=False)
        solver._validate(X, self.y, df, pen)       # raises on refusal
        return True

    def probe(self, name, n=1):
        self.probes[name] = self.probes.get(name, 0) + n

    def fit_intercept(self, knobs):
        return B.solver_fit_intercept(self.solver_name, knobs)

    def model_fit(self, coefs, fi):
        """X w + b computed by the client (dense, float64)."""
        coefs = np.asarray(coefs, dtype=float)
        if fi:
            return self.Xd @ coefs[:self.p_s] + coefs[self.p_s]
        return self.Xd @ coefs[:self.p_s]

    def zeros_w(self, fi):
        if self.multitask:
            return np.zeros((self.p_s + fi, self.y.shape[1]))
        return np.zeros(self.p_s + fi)

    # ------------------------------------------------------------------ one solver call
    def call_solver(self, knobs, start, w0, faults, storage, record=True, rng_key=None, raw_w0=False):
        """Returns a result dict; never raises for exceptions coming out of skglm.

        The hidden generator behind the sparse power method (F-RNG seam) is re-seeded
        before every call from (plan seed, rng_key): the crash points of one grid share
        a key, so that the run with budget k is a prefix of the run with budget k + 1."""
        from . import env
        if rng_key is None:
            rng_key = 1000 + self.logical["solves"]
        env.seed_rng(int(self.plan.get("rng_seed", 0)) * 7919 + int(rng_key))
        X = self.container(storage)
        fi = self.fit_intercept(knobs)
        res = dict(kind="solve", knobs=dict(knobs), start=start, storage=storage, fi=fi,
                   exc=None, w=None, obj_out=None, stop_crit=None, Xw_buf=None, w_buf=None,
                   w_start=None, same_object=None, seam=None)
        try:
            if self.plan.get("matrix") and not self._prevalidated(X, knobs):
                pass
            datafit = self.get_datafit(X, storage)
            penalty = self.get_penalty()
            solver = B.build_solver(self.solver_name, knobs)
        except Exception as e:  # construction / initialisation refused the data
            res["exc"] = classify_exception(e)
            res["phase"] = "init"
            return res
        if start == "cold":
            w_init = Xw_init = None
            w_start = self.zeros_w(fi)
        elif start == "cold_buf":
            w_init = self.zeros_w(fi)
            Xw_init = np.zeros(self.y.shape if self.multitask else self.n_s)
            w_start = w_init.copy()
        elif start == "buffers" and self.w is not None and \
                np.shape(self.w)[0] == self.p_s + fi:
            w_init, Xw_init = self.w, self.Xw
            if Xw_init is None:
                Xw_init = self.model_fit(w_init, fi)
            w_start = np.array(w_init, dtype=float)
        else:
            if w0 is None:
                w_init = self.zeros_w(fi)
            else:
                w_init = np.array(w0, dtype=float)
                if w_init.shape[0] != self.p_s + fi and not raw_w0:   # plan written for another fi
                    w_init = self.zeros_w(fi)
            if w_init.shape[0] == self.p_s + fi:
                Xw_init = self.model_fit(w_init, fi)
            else:   # deliberately mis-sized start vector (must be refused by the solver)
                Xw_init = np.zeros(self.y.shape if self.multitask else self.n_s)
            w_start = w_init.copy()
            res["start"] = "point"
        res["w_start"] = w_start
        if self.multitask and w_init is not None and np.ndim(w_init) == 2 \
                and int(self.plan.get("rng_seed", 0)) % 2:
            # a user's coefficient array need not be C-ordered (the library's own XW and Y are
            # Fortran-ordered): every other *session* hands over Fortran-ordered start arrays
            # (constant within a session: the crash points of one grid must share their layout)
            w_init = np.asfortranarray(w_init)
            if Xw_init is not None and np.ndim(Xw_init) == 2:
                Xw_init = np.asfortranarray(Xw_init)
        seams = Seams(faults)
        try:
            with seams.active():
                out = solver.solve(X, self.y, datafit, penalty, w_init, Xw_init)
            w, obj_out, stop_crit = out
            res["w"] = np.array(w, dtype=float)
            res["obj_out"] = np.array(obj_out, dtype=float)
            res["stop_crit"] = float(stop_crit)
            res["same_object"] = w is w_init
            if Xw_init is not None:
                res["Xw_buf"] = np.array(Xw_init, dtype=float)
                res["w_buf"] = np.array(w_init, dtype=float)
        except SimInterrupt:
            # F-INTERRUPT: the call was killed at a seam event; only the caller's in-place
            # buffers survive
            res["exc"] = dict(type="SimInterrupt", interrupted=True, msg="", where=None,
                              in_skglm=False, harness=False)
            res["phase"] = "solve"
            if Xw_init is not None and w_init is not None:
                res["Xw_buf"] = np.array(Xw_init, dtype=float)
                res["w_buf"] = np.array(w_init, dtype=float)
        except Exception as e:
            res["exc"] = classify_exception(e)
            res["phase"] = "solve"
            if Xw_init is not None and w_init is not None:
                res["Xw_buf"] = np.array(Xw_init, dtype=float)
                res["w_buf"] = np.array(w_init, dtype=float)
        res["seam"] = seams.summary()
        self.hist_max_abs_c = max(self.hist_max_abs_c, res["seam"]["max_abs_c"] or 0.0)
        res["seam"]["hist_max_abs_c"] = self.hist_max_abs_c
        self.seam_missing.update(seams.missing)
        for k, v in seams.fired.items():
            self.fired[k] = self.fired.get(k, 0) + v
        self.logical["solves"] += 1
        self.logical["outer"] += seams.n_argpartition
        self.logical["epochs"] += seams.n_epochs
        if seams.n_linesearch:
            self.probe("line_searches", seams.n_linesearch)
        if seams.ls_exhausted:
            self.probe("line_search_ended_on_last_trial_step", seams.ls_exhausted)
        if record:
            self._log_result(res)
        return res

    def _log_result(self, res):
        self.log.update(repr((res["knobs"], res["start"], res["storage"])).encode())
        if res["exc"]:
            self.log.update(repr((res["exc"]["type"], res["exc"]["where"])).encode())
            if res["exc"].get("interrupted") and res.get("w_buf") is not None:
                self.log.update(_bytes(res["w_buf"]) + _bytes(res["Xw_buf"]))
        else:
            self.log.update(_bytes(res["w"]))
            self.log.update(_bytes(res["obj_out"]))
            self.log.update(_bytes([res["stop_crit"]]))
        self.log.update(repr(res["seam"]["outer"]).encode() + repr(res["seam"]["epochs"]).encode())

    def adopt(self, res):
        """The client keeps what survived the call."""
        if res["exc"] is None:
            self.w = res["w"].copy()
            if res["Xw_buf"] is not None and res.get("same_object"):
                self.Xw = res["Xw_buf"].copy()
            elif res["Xw_buf"] is not None and res.get("w_buf") is not None \
                    and self.solver_name in B.RETURNS_CALLER_W and self.solver_name != "GramCD":
                # a solver documented to update w_init / Xw_init in place: the client goes on
                # with *its own two arrays*, as a hand-written path or warm-start loop does
                self.w, self.Xw = res["w_buf"].copy(), res["Xw_buf"].copy()
            else:
                self.Xw = None
        elif res.get("w_buf") is not None:
            # the call died; only the in-place buffers survive
            self.w, self.Xw = res["w_buf"].copy(), res["Xw_buf"].copy()
            if res["exc"].get("interrupted") and not res.get("buffers_consistent", True):
                self.Xw = None      # the client recomputes the model fit before restarting

    # ------------------------------------------------------------------ operations
    def op_set(self, op):
        params = op["params"]
        how = op.get("how", "new")
        self.pargs.update(copy.deepcopy(params))
        if how == "inplace" and self.penalty is not None:
            for k, v in params.items():
                if isinstance(v, list):
                    v = np.array(v, dtype=float)
                setattr(self.penalty, k, v)      # the way path() / reweighting write them
            self.probe("set_inplace")
        else:
            self.penalty = None
        self.log.update(repr(sorted(params.items(), key=lambda kv: kv[0])).encode())
        return dict(kind="set", params=params, how=how)

    def op_path(self, op):
        knobs = op["knobs"]
        storage = op.get("storage", "F")
        X = self.container(storage)
        fi = self.fit_intercept(knobs)
        res = dict(kind="path", knobs=dict(knobs), storage=storage, fi=fi, exc=None,
                   alphas=list(op["alphas"]), coefs=None, stop_crits=None, n_iters=None)
        try:
            datafit = self.get_datafit(X, storage)
            penalty = self.get_penalty()
            solver = B.build_solver(self.solver_name, knobs)
            w0 = op.get("w0")
            kw = {}
            if w0 is not None:
                w0 = np.array(w0, dtype=float)
                kw["W_init" if self.solver_name == "MultiTaskBCD" else "w_init"] = \
                    w0.T if self.solver_name == "MultiTaskBCD" else w0
            seams = Seams(op.get("faults"))
            with seams.active():
                out = solver.path(X, self.y, datafit, penalty, alphas=np.array(op["alphas"]),
                                  return_n_iter=True, **kw)
            res["coefs"] = np.array(out[1], dtype=float)
            res["stop_crits"] = np.array(out[2], dtype=float)
            res["n_iters"] = np.array(out[3])
            res["seam"] = seams.summary()
            self.hist_max_abs_c = max(self.hist_max_abs_c, res["seam"]["max_abs_c"] or 0.0)
            res["seam"]["hist_max_abs_c"] = self.hist_max_abs_c
            self.logical["solves"] += len(op["alphas"])
            self.logical["outer"] += seams.n_argpartition
            self.logical["epochs"] += seams.n_epochs
            for k, v in seams.fired.items():
                self.fired[k] = self.fired.get(k, 0) + v
            self.log.update(_bytes(res["coefs"]) + _bytes(res["stop_crits"]))
            # path() leaves the last alpha written on the penalty object
            self.pargs["alpha"] = float(op["alphas"][-1])
            self.w, self.Xw = None, None
        except Exception as e:
            res["exc"] = classify_exception(e)
            self.log.update(repr((res["exc"]["type"], res["exc"]["where"])).encode())
            self.penalty = None
        return res

    def digest(self):
        return self.log.hexdigest()
