"""Estimator-level plan generators (C10, C11, C18) and the composition-matrix / RNG plans
(C13, C19, C20, C09) live here; every draw comes from the seeded stream of sim.gen."""
import numpy as np

from . import binding as B
from . import est as E
from . import gen as G
from .gen import choice

EST_ENTRIES = ["Lasso", "WeightedLasso", "ElasticNet", "MCPRegression", "GroupLasso",
               "MultiTaskLasso", "SparseLogisticRegression", "LinearSVC", "CoxEstimator",
               "SqrtLasso", "GeneralizedLinearEstimator", "IterativeReweightedL1"]
_FORCED = {"entry": None}

GLE_FAMILIES = [e for e in G.CATALOG if e[0] in ("AndersonCD", "ProxNewton", "GroupBCD", "MultiTaskBCD")
                and e[1] not in ("Cox", "QuadraticSVC")]


def n_entries(check):
    if check in ("C10", "C11", "C18"):
        return len(EST_ENTRIES)
    if check in ("C13", "C19", "C20"):
        from . import matrix
        return matrix.n_entries(check)
    return 0


def _pick_cls(rng, pool=None):
    pool = pool or EST_ENTRIES
    picked = choice(rng, pool)
    if _FORCED["entry"] is not None:
        c = EST_ENTRIES[_FORCED["entry"] % len(EST_ENTRIES)]
        return c if c in pool else pool[_FORCED["entry"] % len(pool)]
    return picked


def _dataset(rng, kind, n=None, p=None, T=None, p_multiple_of=None):
    n = int(rng.integers(4, 22)) if n is None else n
    p = int(rng.integers(1, 13)) if p is None else p
    if p_multiple_of:
        p = max(p_multiple_of, (p // p_multiple_of) * p_multiple_of)
    X, info = G.gen_X(rng, n, p, scale_decades=choice(rng, [0.0, 0.5, 1.0], p=[.5, .3, .2]))
    y = G.gen_target(rng, X, kind, T or 2)
    return dict(X=X.tolist(), y=np.asarray(y).tolist(), kind=kind, gen=info)


def _budget(rng, ample):
    if ample:
        return dict(max_iter=200, max_epochs=3000)
    return dict(max_iter=int(choice(rng, [1, 2, 5, 20, 50])),
                max_epochs=int(choice(rng, G.EPOCH_GRID + [200, 1000])))


def _alpha_for(rng, cls, args, ds, frac=None, fam=None):
    """Regularisation strength as a fraction of the reference critical value."""
    if frac is None:
        frac = choice(rng, [2.0, 0.9, 0.5, 0.2, 0.1, 0.03, 0.01], p=[.04, .1, .2, .25, .2, .11, .1])
    Xd = np.array(ds["X"], dtype=float)
    y = np.array(ds["y"], dtype=float)
    probe = dict(args)
    probe["alpha"] = 1.0
    try:
        pr, _ = E.reference_problem(cls, probe, Xd, y, family=fam)
        amax = pr.alpha_max()[0]
    except Exception:
        amax = float(np.max(np.abs(Xd.T @ np.ones(len(Xd)))) / len(Xd))
    if not np.isfinite(amax) or amax <= 0:
        amax = 1.0
    return float(G.sig3(amax * frac, 6)), amax


def gen_estimator(rng, cls, ds, ample=True, frac=None):
    """Constructor arguments for ``cls`` on dataset ``ds``."""
    Xd = np.array(ds["X"], dtype=float)
    n, p = Xd.shape
    args = {}
    common = dict(tol=None, fit_intercept=bool(rng.random() < 0.6),
                  warm_start=bool(rng.random() < 0.25))
    ws = choice(rng, ["subdiff", "fixpoint"], p=[.7, .3])
    p0 = int(choice(rng, [1, 2, 3, 10]))
    if cls in ("Lasso", "WeightedLasso", "ElasticNet", "MCPRegression"):
        args.update(common, ws_strategy=ws, p0=p0, positive=bool(rng.random() < 0.3), **_budget(rng, ample))
        if cls == "WeightedLasso":
            args["weights"] = G._weights(rng, p, bool(rng.random() < 0.4)) if rng.random() < 0.85 else None
        if cls == "ElasticNet":
            args["l1_ratio"] = float(choice(rng, [0.1, 0.5, 0.9, 1.0]))
        if cls == "MCPRegression":
            args["weights"] = G._weights(rng, p, False) if rng.random() < 0.4 else None
            wmax = float(np.max(args["weights"])) if args["weights"] else 1.0
            L = (Xd ** 2).sum(axis=0) / n
            pos = L[L > 0]
            need = 1.5 * max(wmax, 1.0) / float(pos.min()) if len(pos) else 3.0
            args["gamma"] = float(G.sig3(max(choice(rng, [3.0, 10.0]), need), 4))
    elif cls == "GroupLasso":
        fmt = choice(rng, ["int", "sizes", "lists"])
        if fmt == "int":
            divs = [d for d in range(1, p + 1) if p % d == 0]
            groups = int(choice(rng, divs))
            G_n = p // groups
        elif fmt == "sizes":
            ptr, _ = G.gen_groups(rng, p)
            groups = [int(b - a) for a, b in zip(ptr[:-1], ptr[1:])]
            # contiguous
            G_n = len(groups)
        else:
            ptr, idx = G.gen_groups(rng, p)
            groups = [[int(j) for j in idx[a:b]] for a, b in zip(ptr[:-1], ptr[1:])]
            G_n = len(groups)
        args.update(common, groups=groups, p0=p0, positive=bool(rng.random() < 0.25), **_budget(rng, ample))
        args["weights"] = G.sig3(rng.uniform(0.3, 2.5, G_n), 3).tolist() if rng.random() < 0.6 else None
    elif cls == "MultiTaskLasso":
        args.update(common, ws_strategy=ws, p0=p0, **_budget(rng, ample))
    elif cls == "SparseLogisticRegression":
        args.update(common, **(dict(max_iter=100, max_epochs=300) if ample else
                               dict(max_iter=int(choice(rng, [1, 3, 20])), max_epochs=int(choice(rng, [1, 5, 50])))))
    elif cls == "LinearSVC":
        args.update(tol=None, warm_start=common["warm_start"], ws_strategy=ws, p0=p0,
                    C=float(choice(rng, [0.01, 0.1, 1.0, 10.0])), **_budget(rng, ample))
    elif cls == "CoxEstimator":
        args.update(tol=None, l1_ratio=float(choice(rng, [1.0, 0.7, 0.3, 0.0], p=[.35, .25, .2, .2])),
                    method=choice(rng, ["efron", "breslow"]), max_iter=200 if ample else int(choice(rng, [1, 5, 50])))
    elif cls == "SqrtLasso":
        args.update(tol=None, max_iter=200 if ample else 20, max_pn_iter=100, p0=p0)
    # regularisation and tolerance
    if cls != "LinearSVC":
        if cls == "SqrtLasso":
            frac = choice(rng, [0.9, 0.5, 0.3]) if frac is None else max(frac, 0.3)
        args["alpha"], amax = _alpha_for(rng, cls, args, ds, frac)
    else:
        amax = 1.0
    gs = amax if amax > 0 else 1.0
    args["tol"] = float(G.sig3(gs * 10.0 ** (-int(rng.integers(3, 8))), 3)) if cls != "LinearSVC" else \
        float(10.0 ** (-int(rng.integers(3, 8))))
    return args


PDCD_FAMILIES = [e for e in G.CATALOG if e[0] == "PDCD_WS"]
SVC_FAMILIES = [e for e in G.CATALOG if e[1] == "QuadraticSVC"]


def gen_gle(rng, cls, families=None):
    entry = choice(rng, families or GLE_FAMILIES)
    prob = G.gen_problem(rng, entry, n=int(rng.integers(4, 20)), p=int(rng.integers(1, 12)))
    if prob["T"] == 1:
        # a single-column Y is documented to be squeezed to 1-D by the estimator: not multitask
        Y = np.array(prob["data"]["y"], dtype=float)
        prob["data"]["y"] = np.column_stack([Y[:, 0], 0.5 * Y[:, 0] + 0.1 * np.arange(len(Y))]).tolist()
        prob["T"] = 2
    fam = prob["family"]
    if cls == "IterativeReweightedL1":
        entry = ("AndersonCD", "Quadratic", ["L05", "LogSum", "L23"], ["F"], [False])
        prob = G.gen_problem(rng, entry, n=int(rng.integers(6, 20)), p=int(rng.integers(2, 10)), fi=False)
        fam = prob["family"]
    knobs = G.gen_knobs(rng, fam["solver"], len(prob["data"]["X"][0]), prob["fi"],
                        fam.get("alpha_max_rm") or 1.0, ample=True)
    knobs["warm_start"] = bool(rng.random() < 0.2)
    if fam["solver"] == "PDCD_WS":
        # the solver's own user-supplied array: the start value of the dual variable
        knobs.pop("fit_intercept", None)
        knobs["dual_init"] = G.sig3(0.1 * rng.standard_normal(len(prob["data"]["X"])), 3).tolist()
    if fam["penalty"] == "WeightedL1GroupL2":
        knobs["ws_strategy"] = "fixpoint"
    args = dict(family={k: fam[k] for k in ("solver", "datafit", "dargs", "penalty", "pargs")}, knobs=knobs)
    if cls == "IterativeReweightedL1":
        args["n_reweights"] = int(choice(rng, [1, 3, 5]))
    ds = dict(prob["data"])
    return args, ds


def _new_model(rng, cls, ample=True, frac=None):
    if cls in ("GeneralizedLinearEstimator", "IterativeReweightedL1"):
        args, ds = gen_gle(rng, cls)
        return args, ds
    kind = E.EST_KIND[cls]
    T = int(rng.integers(1, 4)) if kind == "multi" else None
    ds = _dataset(rng, kind, T=T)
    return gen_estimator(rng, cls, ds, ample, frac), ds


def _mk(check, seed, run, engine, datasets, ops, rng):
    return dict(check=check, level="est", seed=int(seed), run=int(run), engine=engine,
                rng_seed=int(rng.integers(1 << 31)), datasets=datasets, ops=ops,
                family=dict(solver="est", datafit=None, penalty=None), data=datasets[0])


CONTAINERS = ["F", "C", "csc", "csr", "list", "f32"]


def _labels(rng, kind):
    if kind != "bin":
        return None
    return choice(rng, [None, [0, 1], [3, 7], [-1, 1]])


def plan_C11(seed, run, engine, tier="quick"):
    rng = G.rng_for(seed, "C11", run)
    cls = _pick_cls(rng, [c for c in EST_ENTRIES if c != "IterativeReweightedL1"])
    args, ds = _new_model(rng, cls, ample=rng.random() < 0.8)
    if cls == "GeneralizedLinearEstimator" and rng.random() < 0.25:
        # the SVC dual through the generic estimator, solved by AndersonCD or FISTA
        args, ds = gen_gle(rng, cls, SVC_FAMILIES)
    ops = [dict(op="new", id="e0", cls=cls, args=args)]
    cont = choice(rng, ["F", "F", "C", "csc"])
    if cls in ("GroupLasso",) and cont == "csc" and rng.random() < 0.5:
        cont = "F"
    ops.append(dict(op="fit", id="e0", data=0, container=cont, labels=_labels(rng, ds["kind"])))
    r = rng.random()
    if r < 0.45 and cls not in ("GeneralizedLinearEstimator", "SqrtLasso"):
        # change documented constructor arguments, refit (warm or not)
        params = {}
        if "alpha" in args:
            params["alpha"] = float(G.sig3(args["alpha"] * choice(rng, [0.3, 0.6, 2.0, 5.0]), 6))
        if cls == "ElasticNet" and rng.random() < 0.5:
            params["l1_ratio"] = float(choice(rng, [0.2, 0.7, 1.0]))
        if cls == "LinearSVC":
            params["C"] = float(choice(rng, [0.05, 0.5, 5.0]))
        if cls == "CoxEstimator" and rng.random() < 0.5:
            params["method"] = "breslow" if args["method"] == "efron" else "efron"
        if cls in ("Lasso", "ElasticNet", "WeightedLasso", "MCPRegression") and rng.random() < 0.3:
            params["positive"] = not args["positive"]
        if "fit_intercept" in args and rng.random() < 0.2:
            # (also on warm_start objects: the previous fit's intercept_ is state the next fit
            # must not mix into a problem without intercept)
            params["fit_intercept"] = not args["fit_intercept"]
        ops.append(dict(op="set_params", id="e0", params=params))
        ops.append(dict(op="fit", id="e0", data=0, container=cont, labels=ops[1]["labels"]))
    elif (r < 0.6 and cls in ("Lasso", "WeightedLasso", "ElasticNet", "MCPRegression", "MultiTaskLasso")) \
            or (cls == "SqrtLasso" and r < 0.75):
        amax = args["alpha"]
        fr = [choice(rng, [3.0, 1.0, 0.5, 0.2, 0.05]) for _ in range(int(rng.integers(1, 5)))]
        if cls == "SqrtLasso":
            # distinct strengths in any order (the sweep itself runs from the largest down), kept
            # away from the small-residual regime
            fr = list(rng.permutation([1.5, 1.0, 0.7, 0.5, 0.35])[:int(rng.integers(1, 6))])
        ops.append(dict(op="path", id="e0", data=0,
                        container=choice(rng, ["F", "csc"]) if cls != "SqrtLasso" else "F",
                        alphas=[float(G.sig3(amax * f, 6)) for f in fr]))
    return _mk("C11", seed, run, engine, [ds], ops, rng)


def plan_C18(seed, run, engine, tier="quick"):
    rng = G.rng_for(seed, "C18", run)
    cls0 = _pick_cls(rng)
    if engine == "twin" and rng.random() < 0.2:
        # fit, path *and solve*: a solver object is user-held state as well (sim/reuse.py)
        from . import reuse
        return reuse.make_plan(seed, run, engine, rng)
    args0, ds0 = _new_model(rng, cls0, ample=rng.random() < 0.5)
    if cls0 == "GeneralizedLinearEstimator" and rng.random() < 0.3:
        # a solver that carries a user-supplied array of its own (PDCD_WS.dual_init)
        args0, ds0 = gen_gle(rng, cls0, PDCD_FAMILIES)
    reuse_solver = bool(rng.random() < 0.12)
    if reuse_solver:
        # histories in which the estimator's own solver object is used for a path first
        cls0 = "GeneralizedLinearEstimator"
        args0, ds0 = gen_gle(rng, cls0, [e for e in GLE_FAMILIES if e[0] in ("AndersonCD", "MultiTaskBCD")])
    if "warm_start" in args0:
        args0["warm_start"] = False
    if "knobs" in args0:
        args0["knobs"]["warm_start"] = False
    datasets = [ds0]
    ops = []
    # other estimators sharing datafit / penalty classes, fitted before
    pool = {"Lasso": ["WeightedLasso", "ElasticNet", "MCPRegression", "Lasso", "GeneralizedLinearEstimator"],
            "SparseLogisticRegression": ["SparseLogisticRegression", "LinearSVC", "GeneralizedLinearEstimator"]}
    n_before = int(rng.integers(0, 5))
    cont0 = choice(rng, ["F", "csc", "C", "f32"], p=[.4, .35, .15, .1])
    if cls0 in ("CoxEstimator", "SqrtLasso", "GeneralizedLinearEstimator", "IterativeReweightedL1") and cont0 == "f32":
        cont0 = "F"
    for j in range(n_before):
        r = rng.random()
        if r < 0.15:
            ops.append(dict(op="cache", how=choice(rng, ["clear", "pollute"])))
            continue
        ocls = choice(rng, [c for c in EST_ENTRIES if c != "IterativeReweightedL1"]) if r < 0.5 else cls0
        oargs, ods = _new_model(rng, ocls, ample=False)
        datasets.append(ods)
        oid = f"o{j}"
        ops.append(dict(op="new", id=oid, cls=ocls, args=oargs))
        ocont = choice(rng, ["F", "csc", "f32"], p=[.5, .3, .2])
        if ocls in ("CoxEstimator", "SqrtLasso", "GeneralizedLinearEstimator") and ocont == "f32":
            ocont = "F"
        ops.append(dict(op="fit", id=oid, data=len(datasets) - 1, container=ocont, judge=False,
                        labels=_labels(rng, ods["kind"])))
        if rng.random() < 0.2 and ocls in ("Lasso", "ElasticNet", "WeightedLasso", "MCPRegression"):
            ops.append(dict(op="path", id=oid, data=len(datasets) - 1, container="F",
                            alphas=[float(oargs["alpha"] * f) for f in (2.0, 0.5)]))
    if cls0 in ("Lasso", "WeightedLasso", "ElasticNet", "MCPRegression", "MultiTaskLasso") and rng.random() < 0.35:
        # the judged object itself sweeps a path first, in half of the cases with keyword arguments
        # for that sweep only (path(X, y, alphas, tol=..., max_iter=...))
        ops.append(dict(op="new", id="e0", cls=cls0, args=args0))
        kw = {}
        if rng.random() < 0.6:
            kw = choice(rng, [dict(max_iter=1), dict(tol=0.1), dict(max_iter=2, tol=1e-2), dict(p0=1)])
        a0 = args0["alpha"]
        ops.append(dict(op="path", id="e0", data=0, container=choice(rng, ["F", "csc"]),
                        alphas=[float(a0 * f) for f in (2.0, 0.7, 0.2)], kwargs=kw))
        ops.append(dict(op="fit", id="e0", data=0, container=cont0, judge=False, labels=_labels(rng, ds0["kind"]),
                        fresh_compare=True))
        return _mk("C18", seed, run, engine, datasets, ops, rng)
    # a second object with *the same* class and hyper-parameters (state keyed by hyper-parameter
    # values, e.g. a cache of configured instances, only leaks between equal configurations):
    # it sweeps a path (which rewrites alpha on its compiled penalty) or is fitted on other data
    import copy as _copy
    if rng.random() < 0.45 and cls0 not in ("GeneralizedLinearEstimator", "IterativeReweightedL1"):
        ops.append(dict(op="new", id="same", cls=cls0, args=_copy.deepcopy(args0)))
        kind = ds0["kind"]
        Xs = np.array(ds0["X"])
        T = np.array(ds0["y"]).shape[1] if kind == "multi" else None
        alt = _dataset(rng, kind, p=Xs.shape[1], T=T)
        datasets.append(alt)
        if cls0 in ("Lasso", "WeightedLasso", "ElasticNet", "MCPRegression", "MultiTaskLasso", "SqrtLasso") \
                and rng.random() < 0.7:
            a0 = args0["alpha"]
            ops.append(dict(op="path", id="same", data=len(datasets) - 1 if rng.random() < 0.5 else 0,
                            container=choice(rng, ["F", "csc"]) if cls0 != "SqrtLasso" else "F",
                            alphas=[float(a0 * f) for f in (1.0, 0.3, 0.05)]))
        else:
            ops.append(dict(op="fit", id="same", data=len(datasets) - 1, container=cont0, judge=False,
                            labels=_labels(rng, kind)))
    ops.append(dict(op="new", id="e0", cls=cls0, args=args0))
    labels = _labels(rng, ds0["kind"])
    if cls0 == "GeneralizedLinearEstimator" and args0["family"]["solver"] in ("AndersonCD", "MultiTaskBCD") \
            and "alpha" in args0["family"]["pargs"] and (reuse_solver or rng.random() < 0.5):
        # the estimator's own solver object sweeps a path first (on the same data or on other
        # data with the same number of features): state kept on the solver object leaks into
        # the judged fit (round 3, DESIGN section 9)
        kind = ds0["kind"]
        Xs = np.array(ds0["X"])
        if rng.random() < 0.5:
            T = np.array(ds0["y"]).shape[1] if kind == "multi" else None
            datasets.append(_dataset(rng, kind, p=Xs.shape[1], T=T))
            di = len(datasets) - 1
        else:
            di = 0
        a0 = args0["family"]["pargs"]["alpha"]
        ops.append(dict(op="solver_path", id="e0", data=di, container=choice(rng, ["F", "csc"]),
                        alphas=[float(a0 * f) for f in (3.0, 1.0, 0.3, 0.05, 0.005)]))
    if rng.random() < 0.5:
        # the same object fitted before, on other data or on the same
        if rng.random() < 0.5 and cls0 not in ("IterativeReweightedL1",) and \
                (cls0 != "GeneralizedLinearEstimator" or ds0.get("kind") in ("reg", "bin", "multi")):
            kind = ds0["kind"]
            Xs = np.array(ds0["X"])
            T = np.array(ds0["y"]).shape[1] if kind == "multi" else None
            # (often of the very same shape: state keyed by the shape of X only)
            same_n = cls0 == "GeneralizedLinearEstimator" or rng.random() < 0.6
            alt = _dataset(rng, kind, n=Xs.shape[0] if same_n else None, p=Xs.shape[1], T=T)
            datasets.append(alt)
            ops.append(dict(op="fit", id="e0", data=len(datasets) - 1, container=cont0, judge=False,
                            labels=labels))
        else:
            ops.append(dict(op="fit", id="e0", data=0, container=cont0, judge=False, labels=labels))
    if rng.random() < 0.3:
        # F-INTERRUPT: a fit of the judged object is killed part-way (at its k-th working-set
        # selection / kernel call); the next fit must still equal the pristine-process fit
        ops.append(dict(op="fit", id="e0", data=0 if rng.random() < 0.6 else len(datasets) - 1,
                        container=cont0, judge=False, labels=labels,
                        faults=dict(interrupt=int(choice(rng, [0, 1, 2, 3, 5, 8, 13, 30])))))
        if ops[-1]["data"] != 0:
            kd, k0 = datasets[ops[-1]["data"]]["kind"], ds0["kind"]
            p_ok = len(datasets[ops[-1]["data"]]["X"][0]) == len(ds0["X"][0])
            if kd != k0 or not p_ok:
                ops[-1]["data"] = 0
    ops.append(dict(op="fit", id="e0", data=0, container=cont0, judge=False, labels=labels,
                    fresh_compare=True))
    return _mk("C18", seed, run, engine, datasets, ops, rng)


def plan_C10(seed, run, engine, tier="quick"):
    rng = G.rng_for(seed, "C10", run)
    cls = _pick_cls(rng, [c for c in EST_ENTRIES if c not in ("IterativeReweightedL1",)])
    args, ds = _new_model(rng, cls, ample=True)
    if cls == "MCPRegression" and rng.random() < 0.7:
        # non-convex replicas: larger, correlated designs and weak regularisation, where several
        # stationary points exist and the one reached depends on the order of the updates
        ds = _dataset(rng, "reg", n=int(rng.integers(10, 30)), p=int(rng.integers(8, 24)))
        args = gen_estimator(rng, cls, ds, True, frac=choice(rng, [0.03, 0.1, 0.2]))
        args["tol"] = float(min(args["tol"], 1e-6 * args["alpha"]))
    if cls in ("Lasso", "ElasticNet", "WeightedLasso", "GroupLasso") and rng.random() < 0.15:
        # a structured design whose columns sum *exactly* to zero (signed incidence / contrast
        # coding: small integers, last row = minus the sum of the others): harmless for the dense
        # norms, fatal for a sparse power method started from a fixed vector
        n_, p_ = int(rng.integers(4, 16)), int(rng.integers(2, 10))
        Xi = rng.integers(-4, 5, size=(n_, p_)).astype(float) * (rng.random((n_, p_)) < 0.8)
        Xi[-1] = -Xi[:-1].sum(axis=0)
        for j in range(p_):
            if not np.any(Xi[:, j]):
                Xi[0, j], Xi[-1, j] = 1.0, -1.0
        Xi = Xi * 2.0 ** int(rng.integers(-2, 2))
        ds = dict(X=Xi.tolist(), y=np.asarray(G.gen_target(rng, Xi, "reg")).tolist(), kind="reg",
                  gen=dict(rho=0.0, density=0.8, scale_decades=0.0, kind="annihilated"))
        args = gen_estimator(rng, cls, ds, True)
    if cls == "GeneralizedLinearEstimator" and "knobs" in args:
        # still ample for these problem sizes (a cold start needs 2 - 10 outer iterations), but an
        # exhausted replica no longer costs 300 x 300 prox-Newton steps of interpreted Python
        k_ = args["knobs"]
        k_["max_iter"] = min(k_.get("max_iter", 100), 100)
        if "max_pn_iter" in k_:
            k_["max_pn_iter"] = 30
        if "max_epochs" in k_:
            k_["max_epochs"] = 1000
    if "warm_start" in args:
        args["warm_start"] = False
    a = "F"
    pool = ["C", "csc", "csr", "list", "f32", "view"]
    if cls in ("CoxEstimator", "SqrtLasso", "GeneralizedLinearEstimator"):
        pool = ["C", "csc", "list"] if cls != "SqrtLasso" else ["C", "list"]
    b = choice(rng, pool)
    if (ds.get("gen") or {}).get("kind") == "annihilated" and cls == "GroupLasso":
        b = choice(rng, ["csc", "csr"])      # the sparse group constants use the power method
    if b == "f32" and "tol" in args and "alpha" in args:
        # a tolerance below single-precision noise cannot be met in float32 (the solver then
        # iterates until its in-place model-fit buffer has drifted, see DESIGN 6.3): keep the
        # request meaningful in single precision
        Xa, ya = np.array(ds["X"], dtype=float), np.array(ds["y"], dtype=float)
        noise = 1e-6 * float(np.max(np.abs(Xa)) * (np.max(np.abs(ya)) + 1.0))
        args["tol"] = float(max(args["tol"], 1e-3 * args["alpha"], noise))
    labels = _labels(rng, ds["kind"])
    ops = [dict(op="new", id="e0", cls=cls, args=args), dict(op="new", id="e1", cls=cls, args=args),
           dict(op="fit", id="e0", data=0, container=a, labels=labels, optimum=False),
           dict(op="fit", id="e1", data=0, container=b, labels=labels, optimum=False),
           dict(op="compare", a="e0", b="e1")]
    return _mk("C10", seed, run, engine, [ds], ops, rng)


def make_aux_plan(check, seed, run, engine, tier="quick"):
    """Estimator-level histories for checks whose main workload is solver level."""
    rng = G.rng_for(seed, check, run)
    if check == "C03":
        # iterative reweighting never increases the non-convex objective it majorises
        args, ds = gen_gle(rng, "IterativeReweightedL1")
        args["knobs"]["tol"] = float(G.sig3((args["family"].get("alpha_max_rm") or 1.0) * 1e-8, 3)) \
            if False else args["knobs"]["tol"]
        ops = [dict(op="new", id="e0", cls="IterativeReweightedL1", args=args),
               dict(op="fit", id="e0", data=0, container="F", judge=True)]
        return _mk(check, seed, run, engine, [ds], ops, rng)
    if check == "C16":
        # the critical strength through the estimators, with what an earlier fit leaves on a
        # warm_start object: fit at / above alpha_max, then refits just above and below it
        cls = choice(rng, ["Lasso", "ElasticNet", "WeightedLasso", "GroupLasso", "MultiTaskLasso",
                           "SparseLogisticRegression"])
        kind = E.EST_KIND[cls]
        ds = _dataset(rng, kind, T=int(rng.integers(2, 4)) if kind == "multi" else None)
        args = gen_estimator(rng, cls, ds, True, frac=1.0)
        if cls == "WeightedLasso" and args.get("weights") is not None:
            args["weights"] = [w_ if w_ > 0 else 0.5 for w_ in args["weights"]]
        if "positive" in args:
            args["positive"] = False
        if cls == "ElasticNet":
            args["l1_ratio"] = float(choice(rng, [0.3, 0.7, 1.0]))
        args["warm_start"] = bool(rng.random() < 0.7)
        args["fit_intercept"] = bool(rng.random() < 0.8)
        if "ws_strategy" in args:
            args["ws_strategy"] = "subdiff"
        _, amax = _alpha_for(rng, cls, args, ds, 1.0)
        args["alpha"] = float(amax * choice(rng, [2.0, 1.05, 1.001]))
        args["tol"] = float(G.sig3(amax * 10.0 ** (-int(rng.integers(5, 9))), 3))
        labels = _labels(rng, ds["kind"])
        ops = [dict(op="new", id="e0", cls=cls, args=args),
               dict(op="fit", id="e0", data=0, container=choice(rng, ["F", "csc"]), labels=labels, optimum=False)]
        for f_ in rng.permutation([1.05, 2.0, 0.7])[:int(rng.integers(1, 4))]:
            ops.append(dict(op="set_params", id="e0", params=dict(alpha=float(amax * f_))))
            ops.append(dict(op="fit", id="e0", data=0, container=ops[1]["container"], labels=labels,
                            optimum=False))
        return _mk(check, seed, run, engine, [ds], ops, rng)
    if check == "C04":
        cls = choice(rng, ["Lasso", "WeightedLasso", "ElasticNet", "MCPRegression", "GroupLasso", "LinearSVC"])
        args, ds = _new_model(rng, cls, ample=False)
        if "positive" in args:
            args["positive"] = True
        args["max_iter"] = int(choice(rng, [1, 2, 3]))
        args["max_epochs"] = int(choice(rng, [6, 7, 8, 13, 14, 15, 20]))
        ops = [dict(op="new", id="e0", cls=cls, args=args),
               dict(op="fit", id="e0", data=0, container=choice(rng, ["F", "csc"]), optimum=False,
                    labels=_labels(rng, ds["kind"]))]
        if rng.random() < 0.35 and "warm_start" in args:
            # a constraint tightened between two fits of a warm_start estimator: the second fit
            # starts from coefficients that are infeasible for it (round 3, DESIGN section 9)
            args["warm_start"] = True
            tight = dict(max_iter=args["max_iter"], max_epochs=args["max_epochs"])
            args["max_iter"], args["max_epochs"] = int(choice(rng, [3, 50])), int(choice(rng, [50, 1000]))
            if cls == "LinearSVC":
                tight["C"] = args["C"]
                args["C"] = float(args["C"] * choice(rng, [3.0, 10.0, 100.0]))
            else:
                args["positive"] = False
                tight["positive"] = True
            ops.append(dict(op="set_params", id="e0", params=tight))
            ops.append(dict(op="fit", id="e0", data=0, container=ops[1]["container"], optimum=False,
                            labels=ops[1]["labels"], tightened=True))
            return _mk(check, seed, run, engine, [ds], ops, rng)
        if rng.random() < 0.5 and "warm_start" in args:
            args["warm_start"] = True
            ops.append(dict(op="fit", id="e0", data=0, container="F", optimum=False,
                            labels=ops[-1]["labels"]))
        return _mk(check, seed, run, engine, [ds], ops, rng)
    # C17 (n_iter_ is the number of iterations performed) and C05 (warm_start refits after
    # set_params): the C11 histories, warm start forced for C05
    plan = plan_C11(seed, run, engine, tier)
    plan["check"] = check
    if check == "C02":
        # "a converged skglm solver *or estimator* attains ... the reference optimum": the
        # estimator histories of C11 with ample budgets
        new = plan["ops"][0]
        for k_, v_ in (("max_iter", 200), ("max_epochs", 3000)):
            if k_ in new["args"] and new["cls"] not in ("SqrtLasso", "CoxEstimator", "SparseLogisticRegression"):
                new["args"][k_] = v_
        return plan
    if check == "C05":
        new = plan["ops"][0]
        if "warm_start" in new["args"]:
            new["args"]["warm_start"] = True
        elif "knobs" in new["args"]:
            new["args"]["knobs"]["warm_start"] = True
        if len(plan["ops"]) == 2 and "alpha" in new["args"]:
            a = new["args"]["alpha"]
            plan["ops"].append(dict(op="set_params", id="e0",
                                    params=dict(alpha=float(G.sig3(a * choice(rng, [0.3, 3.0]), 6)))))
            plan["ops"].append(dict(op="fit", id="e0", data=0, container=plan["ops"][1]["container"],
                                    labels=plan["ops"][1].get("labels")))
    return plan


PLANNERS = {"C11": plan_C11, "C18": plan_C18, "C10": plan_C10}


def make_plan(check, seed, run, engine, tier="quick", entry=None):
    if check in PLANNERS:
        _FORCED["entry"] = None if entry is None else int(entry)
        try:
            plan = PLANNERS[check](seed, run, engine, tier)
        finally:
            _FORCED["entry"] = None
        if entry is not None:
            plan["forced_entry"] = int(entry)
        return plan
    from . import matrix
    return matrix.make_plan(check, seed, run, engine, tier, entry)
