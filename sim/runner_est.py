"""Estimator-level history machine: NEW / FIT / SET_PARAMS / REFIT / PATH / CACHE operations
against the real skglm estimators, with the documented objective of each estimator as the
reference (sim.est.reference_problem)."""
import copy
import hashlib
import time
import warnings

import numpy as np
import scipy.sparse as sp

from . import binding as B
from . import env, est as E
from .oracles import EPS, REL, is_refusal
from .runner import reference_witness, _cert_ratio, objective_margin
from .seams import Seams, SimInterrupt
from .session import classify_exception


def _hash_obj(o):
    h = hashlib.sha256()
    if sp.issparse(o):
        for a in (o.data, o.indices, o.indptr):
            h.update(np.ascontiguousarray(a).tobytes())
            h.update(str(a.dtype).encode())
        h.update(repr(o.shape).encode())
    elif isinstance(o, np.ndarray):
        h.update(np.ascontiguousarray(o).tobytes())
        h.update(str(o.dtype).encode() + repr(o.shape).encode() + repr(o.flags["F_CONTIGUOUS"]).encode())
    else:
        h.update(repr(o).encode())
    return h.hexdigest()


def make_target(y, kind, labels=None, f32=False):
    y = np.array(y, dtype=float)
    if kind == "bin" and labels is not None:
        lo, hi = labels
        y = np.where(y > 0, hi, lo)
    if kind == "multi":
        y = np.asfortranarray(y)
    if f32 and kind not in ("bin",):
        y = y.astype(np.float32)
    return y


def single_fit(spec):
    """Build the estimator of ``spec`` and fit it once; returns raw results.  Also the
    handler executed in the pristine fork server."""
    env.seed_rng(int(spec["rng"]))
    model = E.build_estimator(spec["cls"], copy.deepcopy(spec["args"]))
    Xc = B.make_container(np.array(spec["X"], dtype=float), spec["container"])
    yc = make_target(spec["y"], spec["kind"], spec.get("labels"), spec["container"] == "f32")
    with warnings.catch_warnings(record=True):
        warnings.simplefilter("always")
        model.fit(Xc, yc)
    return dict(coef=np.array(model.coef_, dtype=float).tobytes(),
                intercept=np.array(getattr(model, "intercept_", 0.0), dtype=float).tobytes())


class EstSession:
    def __init__(self, plan):
        self.plan = plan
        self.models = {}
        self.args = {}        # current constructor arguments per model (tracks set_params)
        self.cls = {}
        self.user_arrays = {}
        self.last_fit = {}
        self.log = hashlib.sha256()
        self.violations = []
        self.counts = dict(solved=0, refused=0, crashed=0, claimed=0, stops=0)
        self.logical = dict(solves=0, outer=0, epochs=0, ops=0)
        self.fired = {}
        self.probes = {}
        self.hist_c = 0.0
        self.sig_events = []

    def probe(self, k, n=1):
        self.probes[k] = self.probes.get(k, 0) + n

    def add(self, prop, oracle, sig, detail, feat, op):
        self.violations.append(dict(prop=prop, oracle=oracle, sig=tuple(sig), detail=detail,
                                    feat=feat, op=op))


def run_plan(plan):
    t0 = time.time()
    S = EstSession(plan)
    check = plan["check"]
    base_seed = int(plan.get("rng_seed", 0))
    for i, op in enumerate(plan["ops"]):
        S.logical["ops"] += 1
        kind = op["op"]
        if kind == "new":
            try:
                S.models[op["id"]] = E.build_estimator(op["cls"], copy.deepcopy(op["args"]))
                S.args[op["id"]] = copy.deepcopy(op["args"])
                S.cls[op["id"]] = op["cls"]
            except Exception as e:
                exc = classify_exception(e)
                if exc.get("harness"):
                    raise
                S.models[op["id"]] = None
        elif kind == "set_params":
            m = S.models.get(op["id"])
            if m is None:
                continue
            params = copy.deepcopy(op["params"])
            S.args[op["id"]].update(copy.deepcopy(params))
            if "weights" in params and params["weights"] is not None:
                params["weights"] = np.array(params["weights"], dtype=float)
            m.set_params(**params)
        elif kind == "cache":
            from skglm.utils.jit_compilation import jit_cached_compile
            if op.get("how", "clear") == "clear":
                jit_cached_compile.cache_clear()
            else:
                # pollute: compile the same classes under the other float spec first
                from skglm.utils.jit_compilation import compiled_clone
                from skglm.datafits import Quadratic
                from skglm.penalties import L1
                compiled_clone(Quadratic(), to_float32=True)
                compiled_clone(L1(0.5))
            S.fired["F-CACHE"] = S.fired.get("F-CACHE", 0) + 1
        elif kind == "fit":
            do_fit(S, op, i, base_seed, check)
        elif kind == "path":
            do_path(S, op, i, base_seed, check)
        elif kind == "solver_path":
            do_solver_path(S, op, i, base_seed)
        elif kind == "compare":
            do_compare(S, op, i)
        else:
            raise ValueError(kind)
    nontrivial = S.logical["epochs"] > 1 or S.logical["outer"] > 1
    first_cls = next(iter(S.cls.values()), None)
    return dict(check=check, seed=plan.get("seed"), run=plan.get("run"), engine=env.engine(),
                digest=S.log.hexdigest(), violations=S.violations, counts=S.counts,
                logical=S.logical, fired=S.fired, probes=S.probes, seam_missing=[],
                distinct_key=(("est",) + tuple(sorted(set(S.cls.values()))) + (tuple(S.sig_events[:8]),))
                if nontrivial else None,
                wall=time.time() - t0, n_results=S.logical["solves"])


def _family_of(S, mid):
    a = S.args[mid]
    return a.get("family")


def do_fit(S, op, i, base_seed, check):
    mid = op["id"]
    model = S.models.get(mid)
    if model is None:
        return
    cls = S.cls[mid]
    ds = S.plan["datasets"][op["data"]]
    container = op.get("container", "F")
    Xd = np.array(ds["X"], dtype=float)
    Xc = B.make_container(Xd, container)
    labels = op.get("labels")
    yc = make_target(ds["y"], ds["kind"], labels, container == "f32")
    rng = base_seed * 7919 + i
    env.seed_rng(rng)
    # ---- C18(a): inputs untouched
    held = {"X": Xc, "y": yc}
    for k in ("weights",):
        v = getattr(model, k, None)
        if isinstance(v, np.ndarray):
            held["param_" + k] = v
    if cls in ("GeneralizedLinearEstimator", "IterativeReweightedL1"):
        for side in ("penalty", "datafit"):
            o = getattr(model, side, None)
            for attr in ("weights", "sample_weights", "grp_ptr", "grp_indices", "alphas",
                         "weights_groups", "weights_features"):
                v = getattr(o, attr, None) if o is not None else None
                if isinstance(v, np.ndarray):
                    held[f"{side}_{attr}"] = v
    for attr in ("dual_init",):
        v = getattr(getattr(model, "solver", None), attr, None)
        if isinstance(v, np.ndarray):
            held["solver_" + attr] = v
    before = {k: _hash_obj(v) for k, v in held.items()}
    solver_before = _solver_params(model)
    est_before = _est_params(model) if cls not in ("GeneralizedLinearEstimator", "IterativeReweightedL1") else None
    seams = Seams(op.get("faults"))
    exc = None
    warned_nonconv = False
    was_fitted = hasattr(model, "coef_")
    reweight_coefs = []
    if cls == "IterativeReweightedL1" and getattr(model, "solver", None) is not None:
        _orig_solve = model.solver.solve

        def _spy_solve(*a, **kw):
            out = _orig_solve(*a, **kw)
            reweight_coefs.append(np.array(out[0], dtype=float))
            return out
        model.solver.solve = _spy_solve
    try:
        with warnings.catch_warnings(record=True) as wlist:
            warnings.simplefilter("always")
            with seams.active():
                model.fit(Xc, yc)
        warned_nonconv = any("converg" in str(w.message).lower() for w in wlist)
    except SimInterrupt:
        exc = dict(type="SimInterrupt", interrupted=True)
    except Exception as e:
        exc = classify_exception(e)
        if exc.get("harness"):
            raise
    if reweight_coefs or cls == "IterativeReweightedL1":
        try:
            del model.solver.solve          # restore the bound method
        except AttributeError:
            pass
    S.logical["solves"] += 1
    S.logical["outer"] += seams.n_argpartition
    S.logical["epochs"] += seams.n_epochs
    S.hist_c = max(S.hist_c, seams.max_abs_c())
    for k, v in seams.fired.items():
        S.fired[k] = S.fired.get(k, 0) + v
    S.sig_events.append((cls, container, tuple(seams.ws_sizes[:3]), min(seams.n_epochs, 99),
                         exc["type"] if exc else "ok"))
    after = {k: _hash_obj(v) for k, v in held.items()}
    feat0 = dict(cls=cls, container=container, kind=ds["kind"], engine=S.plan.get("engine"),
                 refit=was_fitted, warm_start=bool(S.args[mid].get("warm_start", False)),
                 fit_intercept=bool(S.args[mid].get("fit_intercept", False)))
    for k in before:
        if before[k] != after[k]:
            S.add(["C18"], "input_modified", (cls, "input_modified", k), dict(which=k), dict(feat0, which=k), i)
    _judge_solver_params(S, model, solver_before, cls, feat0, i)
    _judge_est_params(S, model, est_before, cls, feat0, i)
    if exc is not None and exc.get("interrupted"):
        # the fit was killed part-way (F-INTERRUPT): nothing was returned, only the estimator
        # object, the user's arrays and process-global state survive.  Inputs were checked
        # above; what the interruption left behind is judged by the fits that follow.
        S.probe("fit_interrupted")
        S.log.update(repr(("interrupted", seams.n_events)).encode())
        S.last_fit[mid] = dict(interrupted=True, container=container, op=i)
        return
    if exc is not None:
        if is_refusal(exc) or exc["type"] in ("ValueError", "TypeError", "AttributeError") and \
                "/sklearn/" in (exc.get("last") or ""):
            S.counts["refused"] += 1
            S.log.update(repr(("refused", exc["type"])).encode())
            S.last_fit[mid] = dict(refused=True, exc=exc, container=container, op=i)
            return
        S.counts["crashed"] += 1
        if container != "F":
            props = ["C10"]     # the dense Fortran replica decides C11 / C13
        else:
            props = ["C13", "C11"]
            if was_fitted:
                props.append("C18")
        S.add(props, "crash", (cls, "fit_crash", exc["type"], exc.get("where")), dict(exc=exc),
              dict(feat0, exc_type=exc["type"], where=exc.get("where"), msg=exc.get("msg", "")[:120]), i)
        S.log.update(repr(("crash", exc["type"], exc.get("where"))).encode())
        S.last_fit[mid] = dict(crashed=True, exc=exc, container=container, op=i)
        return
    S.counts["solved"] += 1
    coef = np.array(model.coef_, dtype=float)
    intercept = np.array(getattr(model, "intercept_", 0.0), dtype=float)
    S.log.update(coef.tobytes() + intercept.tobytes())
    rec = dict(coef=coef, intercept=intercept, container=container, op=i, rng=rng, data=op["data"],
               labels=labels, n_iter=getattr(model, "n_iter_", None), seam_outer=seams.n_argpartition,
               no_work=bool(op.get("tightened")) and not seams.n_argpartition and not seams.n_epochs
               and S.args[mid].get("ws_strategy", "subdiff") == "fixpoint" and cls != "GroupLasso")
    S.last_fit[mid] = rec
    if op.get("judge", True):
        judge_fit(S, model, mid, cls, ds, Xd, yc, rec, seams, warned_nonconv, feat0, i, check, container)
    if cls == "IterativeReweightedL1" and len(reweight_coefs) > 1:
        judge_reweighting(S, mid, ds, Xd, reweight_coefs, feat0, i)
    # ---- C18(b): same fit alone in a pristine process
    if op.get("fresh_compare") and not S.args[mid].get("warm_start", False):
        from . import fresh
        srv = fresh.get()
        if srv is not None:
            spec = dict(cls=cls, args=S.args[mid], X=ds["X"], y=ds["y"], kind=ds["kind"],
                        labels=labels, container=container, rng=rng)
            status, out = srv.request(spec)
            S.probe("fresh_compare")
            if status != "ok":
                S.add(["C18"], "fresh_fit_failed", (cls, "fresh_fit_failed"), dict(status=status, out=str(out)[:300]),
                      dict(feat0), i)
            elif out["coef"] != coef.tobytes() or out["intercept"] != intercept.tobytes():
                fresh_coef = np.frombuffer(out["coef"]).reshape(coef.shape)
                diff = float(np.max(np.abs(fresh_coef - coef))) if coef.size else 0.0
                S.add(["C18"], "history_dependent_result", (cls, "result_differs_from_fresh_fit"),
                      dict(max_abs_diff=diff), dict(feat0, max_abs_diff=diff,
                                                    sparse=container.startswith("cs")), i)


def _extract(cls, model, rec, Xd, y_pm):
    """(w, b) in the variables of the reference problem."""
    coef, intercept = rec["coef"], rec["intercept"]
    if cls == "LinearSVC":
        return np.array(model.dual_coef_, dtype=float)[0], 0.0
    if cls == "SparseLogisticRegression":
        return coef[0], float(np.ravel(intercept)[0]) if np.ndim(intercept) else float(intercept)
    if cls == "MultiTaskLasso":
        return coef.T, np.ravel(intercept)
    if cls == "GeneralizedLinearEstimator":
        dn = getattr(model.datafit, "__class__", type(None)).__name__
        if "MultiTask" in dn:
            return coef, np.ravel(intercept) if np.ndim(intercept) else np.zeros(coef.shape[1])
        if coef.ndim == 2 and coef.shape[0] == 1:
            return coef[0], float(np.ravel(intercept)[0]) if np.ndim(intercept) else float(intercept)
    return coef, float(intercept) if np.ndim(intercept) == 0 else np.ravel(intercept)


C16_ESTIMATORS = ("Lasso", "ElasticNet", "WeightedLasso", "GroupLasso", "MultiTaskLasso",
                  "SparseLogisticRegression")


def judge_fit(S, model, mid, cls, ds, Xd, yc, rec, seams, warned_nonconv, feat0, i, check, container):
    params = dict(S.args[mid])
    kind = ds["kind"]
    y = np.array(ds["y"], dtype=float)
    if container == "f32":
        # the estimator solves the problem of the data rounded to single precision
        Xd = Xd.astype(np.float32).astype(float)
        if kind != "bin":
            y = y.astype(np.float32).astype(float)
    fam = params.get("family")
    if cls in ("GeneralizedLinearEstimator", "IterativeReweightedL1"):
        fam = dict(fam, knobs=params.get("knobs") or {})
        if fam["datafit"] == "QuadraticSVC":
            # the SVC dual through the generic estimator, with any solver it accepts (AndersonCD
            # updates the caller's buffers in place, FISTA works on copies): the dual solution is
            # feasible and coef_ is its stated primal image
            return judge_gle_svc(S, model, cls, fam, Xd, y, rec, feat0, i)
    try:
        pr, info = E.reference_problem(cls, params, Xd, y, family=fam)
    except KeyError:
        return
    w, b = _extract(cls, model, rec, Xd, y)
    sig0 = (cls,)
    if not pr.finite(w, b):
        S.add(["C11", "C13"], "finite", sig0 + ("nonfinite",), {}, dict(feat0), i)
        return
    tol = info["tol"]
    stop = getattr(model, "stop_crit_", getattr(model, "stopping_crit", None))
    if cls == "SqrtLasso":
        claimed = not warned_nonconv
    elif cls == "IterativeReweightedL1":
        claimed = False
    else:
        claimed = stop is not None and np.isfinite(stop) and stop <= tol
    if claimed:
        S.counts["claimed"] += 1
    crit = info["criterion"]
    scale = pr.rounding_scale(w, b)
    drift = 100 * EPS * S.hist_c * scale
    f32 = container == "f32"
    # single precision data: the solver works in float32
    f32_allow = (2e-5 * scale) if f32 else 0.0
    # ---- C04-like feasibility for estimators with constraints
    # (a warm-started fit that stops at its first optimality test returns the coefficients it
    # was started from: see the solver-level oracle)
    if rec.get("no_work"):
        wv_ = np.asarray(w, dtype=float)
        hi = float(pr.pen.alpha) if pr.pen.name == "IndicatorBox" else np.inf
        rec["no_work"] = float(np.max(np.maximum(np.maximum(-wv_, wv_ - hi), 0.0), initial=0.0)) <= tol * (1 + REL)
    if pr.pen.has_constraint and not pr.pen.feasible(w) and not rec.get("no_work"):
        S.add(["C04", "C11"], "feasible", sig0 + ("infeasible",), dict(min=float(np.min(w))), dict(feat0), i)
    # ---- C11 (a): stationarity for the documented objective
    if claimed and crit in ("subdiff", "fixpoint") and not f32:
        solver_name = {"SparseLogisticRegression": "ProxNewton", "CoxEstimator": "ProxNewton",
                       "SqrtLasso": "ProxNewton"}.get(cls)
        if fam:
            solver_name = fam["solver"]
        curv = "local" if solver_name == "ProxNewton" else "global"
        if cls == "CoxEstimator" and float(params["l1_ratio"]) == 0.0:
            crit = "subdiff"
        cert = pr.certificate(w, b, criterion=crit, curv=curv)
        bound = tol * (1 + REL) + cert["allowance"] + drift + f32_allow
        if cert["value"] > bound:
            only_int = cert["coef_part"] <= bound < cert["intercept_part"]
            bad = np.where(np.asarray(cert["per_unit"]) > bound)[0]
            only_zero = bool(len(bad)) and cert["intercept_part"] <= bound and all(
                not pr.absX[:, pr.pen.unit_indices(int(k), pr.p)].any() for k in bad)
            props = ["C11"]
            if container != "F":
                props.append("C10")
            if feat0.get("refit") and feat0.get("warm_start"):
                props.append("C05")      # a warm-started refit must solve the problem it is asked
            S.add(props, "certificate", sig0 + ("certificate", crit, "intercept_only" if only_int else "coef"),
                  dict(stop_crit=None if stop is None else float(stop), tol=tol, recomputed=cert["value"],
                       coef_part=cert["coef_part"], intercept_part=cert["intercept_part"]),
                  dict(feat0, criterion=crit, only_intercept=bool(only_int), only_zero_columns=only_zero,
                       intercept_ratio=cert["intercept_part"] / tol if tol else 0.0,
                       ratio=cert["value"] / tol if tol else 0.0, solver=solver_name,
                       datafit=pr.loss.name, fi=pr.fit_intercept,
                       method=params.get("method"), l1_ratio=params.get("l1_ratio")), i)
    # ---- C11 (b): optimal when convex (witness optimum)
    if claimed and pr.pen.convex and cls in E.CONVEX_EST | {"GeneralizedLinearEstimator"} \
            and op_wants_optimum(S, i):
        wz, bz, Pz = reference_witness(pr, hint=(w, b))
        P = pr.objective(w, b)
        dist = float(np.sum(np.abs(w - wz)) + np.sum(np.abs(np.asarray(b) - np.asarray(bz))))
        exact = crit == "subdiff" and cls != "SqrtLasso"
        margin = objective_margin(pr, w, b, dist, tol, crit, exact, Pz) \
            + (drift + f32_allow + (1e-4 * (1 + abs(Pz)) if f32 else 0.0)) * (1 + dist)
        if P > Pz + margin:
            props = ["C11", "C02"] + (["C10"] if container != "F" else []) + \
                (["C05"] if feat0.get("refit") and feat0.get("warm_start") else [])
            S.add(props, "reference_optimum", sig0 + ("above_reference_optimum",),
                  dict(P=float(P), P_ref=float(Pz), margin=float(margin), tol=tol, dist=dist),
                  dict(feat0, gap_over_margin=float((P - Pz) / margin) if margin > 0 else float("inf"),
                       criterion=crit, cert_ratio=_cert_ratio(pr, w, b, tol), datafit=pr.loss.name,
                       fi=pr.fit_intercept, solver=(fam["solver"] if fam else None),
                       has_zero_columns=bool((~pr.absX.any(axis=0)).any()),
                       method=params.get("method"), l1_ratio=params.get("l1_ratio")), i)
    # ---- LinearSVC: coef_ is the primal image of the dual solution
    if cls == "LinearSVC":
        ypm = np.where(y > 0, 1.0, -1.0)
        primal = (Xd * ypm[:, None]).T @ w
        err = float(np.max(np.abs(primal - rec["coef"][0]))) if rec["coef"].size else 0.0
        if err > 1e-9 * (1 + float(np.max(np.abs(primal), initial=0.0))) + f32_allow:
            S.add(["C11"], "svc_primal_image", sig0 + ("primal_image_mismatch",), dict(err=err), dict(feat0), i)
    # ---- C17 (d): n_iter_ is the number of outer iterations performed
    n_iter = rec.get("n_iter")
    if n_iter is not None and cls not in ("CoxEstimator", "SqrtLasso", "IterativeReweightedL1") and \
            not (fam and fam["solver"] in ("FISTA", "LBFGS", "GramCD")):
        if int(n_iter) != int(seams.n_argpartition):
            S.add(["C17"], "n_iter", sig0 + ("n_iter_mismatch",),
                  dict(n_iter=int(n_iter), performed=int(seams.n_argpartition)), dict(feat0), i)
    # ---- C16 through the estimators: at alpha >= alpha_max a converged fit - cold, or warm-started
    # from whatever an earlier fit left on the object - has exactly zero coefficients and an
    # optimal unpenalised part
    if check == "C16" and "alpha" in params and claimed and not f32 and cls in C16_ESTIMATORS:
        try:
            base, _ = E.reference_problem(cls, dict(params, alpha=1.0), Xd, y, family=fam)
            amax, _null = base.alpha_max()
        except Exception:
            amax = 0.0
        a_ = float(params["alpha"])
        if amax > 1e-8 and a_ >= amax * (1 + 1e-6) and pr.pen.convex \
                and bool(np.all(pr.pen.penalized_mask(pr.p))):
            wv_ = np.asarray(w)
            nz_ = bool(np.any(wv_ != 0))
            colmean = float(np.max(np.abs(pr.X.mean(axis=0)), initial=0.0))
            l1r = float(params.get("l1_ratio", 1.0) or 1.0)
            wts_ = np.asarray(getattr(pr.pen, "weights", [1.0]), dtype=float)
            gap_ = (a_ - amax) * l1r * float(np.min(wts_[wts_ > 0])) if np.any(wts_ > 0) else 0.0
            S.probe("c16_estimator_fits_above_alpha_max")
            if nz_ and crit == "subdiff" and gap_ >= 1e3 * tol * (1 + colmean):
                S.add(["C16"], "null_above_critical", sig0 + ("nonzero_above_alpha_max",),
                      dict(alpha=a_, alpha_max=float(amax), tol=tol), dict(feat0, ratio=a_ / amax), i)
            elif not nz_:
                ccrit = crit if crit in ("subdiff", "fixpoint") else "subdiff"
                cert_ = pr.certificate(w, b, criterion=ccrit,
                                       curv="local" if cls == "SparseLogisticRegression" else "global")
                bound_ = tol * (1 + REL) + cert_["allowance"] + drift
                if cert_["value"] > bound_:
                    S.add(["C16"], "unpenalised_part_optimal", sig0 + ("null_model_unpenalised_part_suboptimal",),
                          dict(alpha=a_, alpha_max=float(amax), recomputed=cert_["value"],
                               intercept_part=cert_["intercept_part"], tol=tol, intercept=np.asarray(b).tolist()),
                          dict(feat0, ratio=a_ / amax, intercept_ratio=cert_["intercept_part"] / tol,
                               only_intercept=bool(cert_["coef_part"] <= bound_)), i)
    rec["objective"] = float(pr.objective(w, b)) if pr.finite(w, b) else None
    rec["claimed"] = bool(claimed)
    rec["tol"] = tol
    rec["problem"] = pr
    rec["wb"] = (w, b)


def judge_gle_svc(S, model, cls, fam, Xd, y, rec, feat0, i):
    C = float(fam["pargs"]["alpha"])
    sig0 = (cls, "QuadraticSVC", fam["solver"])
    dual = getattr(model, "dual_coef_", None)
    coef = rec["coef"]
    if dual is None:
        S.add(["C11"], "svc_primal_image", sig0 + ("no_dual_coef",), {}, dict(feat0, solver=fam["solver"]), i)
        return
    dual = np.array(dual, dtype=float)[0]
    if not (np.all(np.isfinite(dual)) and np.all(np.isfinite(coef))):
        S.add(["C11", "C13"], "finite", sig0 + ("nonfinite",), {}, dict(feat0, solver=fam["solver"]), i)
        return
    if np.any(dual < 0) or np.any(dual > C):
        S.add(["C04", "C11"], "feasible", sig0 + ("infeasible",),
              dict(min=float(dual.min()), max=float(dual.max()), C=C), dict(feat0, solver=fam["solver"]), i)
    ypm = np.where(np.asarray(y, dtype=float) > 0, 1.0, -1.0)
    primal = (Xd * ypm[:, None]).T @ dual
    got = np.ravel(coef)
    err = float(np.max(np.abs(primal - got))) if got.size == primal.size else float("inf")
    S.probe("gle_svc_primal_image_checked")
    if err > 1e-9 * (1 + float(np.max(np.abs(primal), initial=0.0))):
        S.add(["C11"], "svc_primal_image", sig0 + ("primal_image_mismatch",), dict(err=err),
              dict(feat0, solver=fam["solver"]), i)


def op_wants_optimum(S, i):
    return S.plan["ops"][i].get("optimum", True)


def _est_params(model):
    """The estimator's own constructor arguments (get_params, scalars by value, arrays by hash)."""
    try:
        gp = model.get_params(deep=False)
    except Exception:
        return None
    out = {}
    for k, v in gp.items():
        if isinstance(v, (bool, np.bool_, int, float, np.integer, np.floating)):
            out[k] = repr(float(v))
        elif isinstance(v, (str, type(None))):
            out[k] = repr(v)
        elif isinstance(v, np.ndarray):
            out[k] = _hash_obj(v)
        elif isinstance(v, (list, tuple)):
            out[k] = repr(v)
    return out


def _judge_est_params(S, model, before, cls, feat0, i):
    """fit / path may not rewrite the constructor arguments of the estimator they are called on
    (only set_params does): a later fit would then depend on what was called before."""
    if before is None:
        return
    after = _est_params(model) or {}
    changed = sorted(k for k in set(before) | set(after) if before.get(k) != after.get(k))
    if changed:
        S.add(["C18"], "estimator_params_modified", (cls, "estimator_params_modified", changed[0]),
              dict(changed={k: [before.get(k), after.get(k)] for k in changed}),
              dict(feat0, which=changed[0]), i)


def _solver_params(model):
    """Scalar hyper-parameters of a user-held solver object (constructor arguments)."""
    solver = getattr(model, "solver", None)
    if solver is None or not hasattr(solver, "__dict__"):
        return None
    out = {}
    import inspect
    try:
        ctor = set(inspect.signature(type(solver).__init__).parameters)
    except (TypeError, ValueError):
        ctor = None
    for k, v in vars(solver).items():
        if ctor is not None and k not in ctor:
            continue      # only what the user passed to the constructor (a private cache is
            #               judged by what it does to results, not by its existence)
        if isinstance(v, (bool, np.bool_, int, float, np.integer, np.floating)):
            out[k] = ("num", repr(float(v)))        # compared by value, not by type
        elif isinstance(v, (str, type(None))):
            out[k] = ("obj", repr(v))
    return out


def _judge_solver_params(S, model, before, cls, feat0, i):
    """A fit / path may not rewrite the hyper-parameters of the solver object the user holds:
    a later fit with the same object would then depend on what was fitted before."""
    if before is None:
        return
    after = _solver_params(model)
    changed = sorted(k for k in set(before) | set(after or {})
                     if (after or {}).get(k, (None, None))[1] != before.get(k, (None, None))[1])
    if changed:
        S.add(["C18"], "solver_hyperparameters_modified",
              (cls, "solver_hyperparameters_modified", type(model.solver).__name__, changed[0]),
              dict(changed={k: [before.get(k, (None, None))[1], (after or {}).get(k, (None, None))[1]]
                            for k in changed}),
              dict(feat0, which=changed[0], solver=type(model.solver).__name__), i)


def do_solver_path(S, op, i, base_seed):
    """The user-held solver object of a GeneralizedLinearEstimator sweeps a regularisation
    path (solver.path) on some dataset, with freshly compiled clones of the estimator's datafit
    and penalty: shared state between this and a later fit can only live in the solver object
    or in process-global caches."""
    mid = op["id"]
    model = S.models.get(mid)
    if model is None or not hasattr(getattr(model, "solver", None), "path"):
        return
    from skglm.utils.jit_compilation import compiled_clone
    cls = S.cls[mid]
    ds = S.plan["datasets"][op["data"]]
    container = op.get("container", "F")
    Xd = np.array(ds["X"], dtype=float)
    Xc = B.make_container(Xd, container)
    yc = make_target(ds["y"], ds["kind"], None, False)
    env.seed_rng(base_seed * 7919 + i)
    feat0 = dict(cls=cls, container=container, kind=ds["kind"], path=True, solver_path=True,
                 engine=S.plan.get("engine"))
    before = _solver_params(model)
    hx = (_hash_obj(Xc), _hash_obj(yc))
    seams = Seams(None)
    try:
        datafit = compiled_clone(model.datafit)
        penalty = compiled_clone(model.penalty)
        if sp.issparse(Xc):
            datafit.initialize_sparse(Xc.data, Xc.indptr, Xc.indices, yc)
        else:
            datafit.initialize(Xc, yc)
        with warnings.catch_warnings(record=True):
            warnings.simplefilter("always")
            with seams.active():
                out = model.solver.path(Xc, yc, datafit, penalty, alphas=np.array(op["alphas"], dtype=float))
        S.log.update(np.array(out[1], dtype=float).tobytes())
        S.counts["solved"] += 1
    except Exception as e:
        exc = classify_exception(e)
        if exc.get("harness"):
            raise
        S.counts["refused" if is_refusal(exc) else "crashed"] += 1
        S.log.update(repr(("solver_path", exc["type"])).encode())
    S.probe("solver_object_reused_after_path")
    S.logical["solves"] += len(op["alphas"])
    S.logical["outer"] += seams.n_argpartition
    S.logical["epochs"] += seams.n_epochs
    S.hist_c = max(S.hist_c, seams.max_abs_c())
    if hx != (_hash_obj(Xc), _hash_obj(yc)):
        S.add(["C18"], "input_modified", (cls, "input_modified", "solver_path"), {}, dict(feat0), i)
    _judge_solver_params(S, model, before, cls, feat0, i)


def do_path(S, op, i, base_seed, check):
    mid = op["id"]
    model = S.models.get(mid)
    if model is None:
        return
    cls = S.cls[mid]
    ds = S.plan["datasets"][op["data"]]
    container = op.get("container", "F")
    Xd = np.array(ds["X"], dtype=float)
    Xc = B.make_container(Xd, container)
    yc = make_target(ds["y"], ds["kind"], None, container == "f32")
    env.seed_rng(base_seed * 7919 + i)
    before = (_hash_obj(Xc), _hash_obj(yc))
    seams = Seams(None)
    feat0 = dict(cls=cls, container=container, kind=ds["kind"], path=True, engine=S.plan.get("engine"),
                 fit_intercept=bool(S.args[mid].get("fit_intercept", False)))
    wlist = []
    est_before = _est_params(model)
    try:
        with warnings.catch_warnings(record=True) as wlist:
            warnings.simplefilter("always")
            with seams.active():
                if cls == "SqrtLasso":
                    out = model.path(Xc, yc, alphas=np.array(op["alphas"]))
                else:
                    # (path(..., **params): extra keyword arguments are accepted by the estimators'
                    # path methods; whatever they do with them, the estimator keeps its own)
                    out = model.path(Xc, yc, np.array(op["alphas"]), return_n_iter=True,
                                     **(op.get("kwargs") or {}))
    except Exception as e:
        exc = classify_exception(e)
        if exc.get("harness"):
            raise
        if is_refusal(exc):
            S.counts["refused"] += 1
            return
        S.counts["crashed"] += 1
        S.add(["C13", "C11", "C05"], "crash", (cls, "path_crash", exc["type"], exc.get("where")), dict(exc=exc),
              dict(feat0, exc_type=exc["type"], where=exc.get("where")), i)
        return
    S.logical["solves"] += len(op["alphas"])
    S.logical["outer"] += seams.n_argpartition
    S.logical["epochs"] += seams.n_epochs
    S.hist_c = max(S.hist_c, seams.max_abs_c())
    S.counts["solved"] += 1
    after = (_hash_obj(Xc), _hash_obj(yc))
    if before != after:
        S.add(["C18"], "input_modified", (cls, "input_modified", "path"), {}, dict(feat0), i)
    _judge_est_params(S, model, est_before, cls, feat0, i)
    if op.get("kwargs"):
        return       # a sweep under other settings than the estimator's own is not judged
    alphas_out = np.array(out[0], dtype=float)
    coefs = np.array(out[1], dtype=float)
    S.log.update(coefs.tobytes())
    params = dict(S.args[mid])
    y = np.array(ds["y"], dtype=float)
    fi = bool(params.get("fit_intercept", False)) and cls != "SqrtLasso"
    stop_crits = None if cls == "SqrtLasso" else np.array(out[2], dtype=float)
    for t, a in enumerate(alphas_out):
        p2 = dict(params, alpha=float(a))
        pr, info = E.reference_problem(cls, p2, Xd, y)
        if cls == "SqrtLasso":
            w, b = coefs[t], 0.0
            continue_claim = False
        elif cls == "MultiTaskLasso":
            W = coefs[:, :, t].T
            w, b = (W[:-1], W[-1]) if fi else (W, np.zeros(W.shape[1]))
            continue_claim = True
        else:
            c = coefs[:, t]
            w, b = (c[:-1], float(c[-1])) if fi else (c, 0.0)
            continue_claim = True
        if not pr.finite(w, b):
            S.add(["C11", "C05"], "finite", (cls, "path_nonfinite"), dict(t=t), dict(feat0), i)
            continue
        if pr.pen.has_constraint and not pr.pen.feasible(w):
            S.add(["C04", "C11"], "feasible", (cls, "path_infeasible"), dict(t=t), dict(feat0), i)
        tol = info["tol"]
        if cls == "SqrtLasso":
            # path() returns no stopping values: a sweep that raised no convergence / small-
            # residual warning has solved every alpha it returns, so each returned pair
            # (alpha_t, coefs_t) must be within the witness-optimum margin *for that alpha*
            if any(("converg" in str(w_.message).lower() or "residual" in str(w_.message).lower())
                   for w_ in wlist) or len(alphas_out) != len(coefs):
                continue
            wz, bz, Pz = reference_witness(pr, hint=(w, b))
            P = pr.objective(w, b)
            dist = float(np.sum(np.abs(w - wz)))
            margin = objective_margin(pr, w, b, dist, tol, "subdiff", False, Pz)
            S.probe("sqrtlasso_path_points_judged")
            if P > Pz + margin:
                S.add(["C05", "C11", "C02"], "path_optimum", (cls, "path_point_above_reference_optimum"),
                      dict(t=t, alpha=float(a), P=float(P), P_ref=float(Pz), margin=float(margin)),
                      dict(feat0, t=t, n_alphas=len(alphas_out), gap=float(P - Pz)), i)
            continue
        if continue_claim and stop_crits is not None and stop_crits[t] <= tol:
            crit = info["criterion"]
            cert = pr.certificate(w, b, criterion=crit)
            scale = pr.rounding_scale(w, b)
            bound = tol * (1 + REL) + cert["allowance"] * (1 + t) + 100 * EPS * S.hist_c * scale \
                + (2e-5 * scale if container == "f32" else 0.0)
            if cert["value"] > bound:
                only_int = cert["coef_part"] <= bound < cert["intercept_part"]
                S.add(["C11", "C05"], "certificate",
                      (cls, "path_certificate", crit, "intercept_only" if only_int else "coef"),
                      dict(t=t, alpha=float(a), stop_crit=float(stop_crits[t]), tol=tol,
                           recomputed=cert["value"], intercept_part=cert["intercept_part"]),
                      dict(feat0, criterion=crit, only_intercept=bool(only_int), t=t,
                           intercept_ratio=cert["intercept_part"] / tol, ratio=cert["value"] / tol,
                           datafit=pr.loss.name, fi=pr.fit_intercept), i)


EPS32 = float(np.finfo(np.float32).eps)


def do_compare(S, op, i):
    """C10: two replicas of the same fit that differ only in how X is stored."""
    ra, rb = S.last_fit.get(op["a"]), S.last_fit.get(op["b"])
    if not ra or not rb:
        return
    cls = S.cls[op["a"]]
    feat0 = dict(cls=cls, container_a=ra.get("container"), container_b=rb.get("container"),
                 engine=S.plan.get("engine"))
    oa = "refused" if ra.get("refused") else "crashed" if ra.get("crashed") else "solved"
    ob = "refused" if rb.get("refused") else "crashed" if rb.get("crashed") else "solved"
    S.probe("storage_pairs")
    if "crashed" in (oa, ob):
        return            # reported by the fit itself
    if oa != ob:
        # a representation may be refused, with an explanation; that is a legal outcome
        S.probe("storage_refused")
        return
    if oa == "refused":
        return
    if not (ra.get("claimed") and rb.get("claimed")):
        # One replica converges quickly, the other burns the same ample budget: the storage format
        # changed the algorithm (the dense and the sparse kernels perform the same updates; only
        # rounding differs).  Demanded where the budgets are the ample ones, in double precision,
        # and the converged replica needed at most a quarter of its outer iterations.
        a_args = S.args[op["a"]]
        budget = (a_args.get("knobs") or a_args).get("max_iter")
        f32_ = "f32" in (ra.get("container"), rb.get("container"))
        if (ra.get("claimed") != rb.get("claimed")) and not f32_ and budget and budget >= 100 \
                and "claimed" in ra and "claimed" in rb and cls not in ("SqrtLasso",):
            conv, other = (ra, rb) if ra.get("claimed") else (rb, ra)
            far = False
            if other.get("problem") is not None and other.get("wb") is not None \
                    and other["problem"].pen.convex and other["problem"].pen.kind != "vec":
                # (convex problems only, and the exhausted replica must be *far* from stationarity -
                # not hovering around the tolerance, which rounding alone decides)
                try:
                    crit_ = (a_args.get("knobs") or a_args).get("ws_strategy", "subdiff")
                    cv = other["problem"].certificate(other["wb"][0], other["wb"][1],
                                                      criterion=crit_ if crit_ in ("subdiff", "fixpoint") else "subdiff")
                    far = bool(cv["coef_part"] > 1e3 * max(other.get("tol") or 0.0, 1e-300))
                except Exception:
                    far = False
            if far and conv.get("n_iter") is not None and 0 < int(conv["n_iter"]) <= budget // 4 \
                    and other.get("n_iter") is not None and int(other["n_iter"]) >= budget:
                S.probe("storage_convergence_compared")
                S.add(["C10"], "storage_convergence", (cls, "converges_in_one_storage_only"),
                      dict(converged=conv.get("container"), n_iter_converged=int(conv["n_iter"]),
                           exhausted=other.get("container"), budget=int(budget)),
                      dict(feat0, solver=(a_args.get("family") or {}).get("solver")), i)
        return
    pr = ra["problem"]
    if not pr.pen.convex:
        # Non-convex penalties: no convexity margin exists, but the dense and the sparse kernels
        # perform the same coordinate updates in the same order and differ by rounding only, so
        # two converged replicas sit in the same basin and agree to about the tolerance.  Landing
        # at *different* stationary points (objectives apart in the 5th digit at a tight
        # tolerance) means the storage format changed the algorithm.  A flip of one of the
        # discontinuous decisions (working-set tie, extrapolation acceptance) by rounding alone
        # needs a tie at the 1e-16 level; single-precision replicas are not compared.
        if "f32" in (ra.get("container"), rb.get("container")):
            return
        (wa, ba), (wb, bb) = ra["wb"], rb["wb"]
        Pa, Pb = pr.objective(wa, ba), pr.objective(wb, bb)
        tol = max(ra["tol"], rb["tol"])
        l1 = float(np.sum(np.abs(wa)) + np.sum(np.abs(wb)))
        thr = 1e-5 * (1 + abs(Pa)) + 1e3 * tol * (1 + l1)
        S.probe("nonconvex_storage_pairs")
        if np.isfinite(Pa) and np.isfinite(Pb) and abs(Pa - Pb) > thr:
            # WITHDRAWN as an oracle (DESIGN section 8, item 23): on correlated designs the
            # working-set scores of near-duplicate features tie up to rounding, the dense and
            # the sparse kernels break the tie differently and legitimately end at different
            # stationary points (4 such pairs in one quick batch at seed 2 on the unchanged
            # tree).  Kept as a probe.
            S.probe("nonconvex_pairs_at_different_stationary_points")
        return
    (wa, ba), (wb, bb) = ra["wb"], rb["wb"]
    Pa, Pb = pr.objective(wa, ba), pr.objective(wb, bb)
    dist = float(np.sum(np.abs(wa - wb)) + np.sum(np.abs(np.asarray(ba) - np.asarray(bb))))
    tol = max(ra["tol"], rb["tol"])
    scale = pr.rounding_scale(wa, ba)
    f32 = "f32" in (ra.get("container"), rb.get("container"))
    a_args = S.args[op["a"]]
    crit = (a_args.get("knobs") or a_args).get("ws_strategy", "subdiff")
    exact = crit == "subdiff" and cls != "SqrtLasso"
    margin = max(objective_margin(pr, wa, ba, dist, tol, crit, exact, Pa),
                 objective_margin(pr, wb, bb, dist, tol, crit, exact, Pb)) \
        + (100 * EPS * S.hist_c * scale + ((2e-5 * scale + 1e-4 * (1 + abs(Pa))) if f32 else 0.0)
           # single precision: an extrapolated point is a combination of rounded iterates with
           # coefficients c, so coefficients and model fit disagree by up to eps32 * sum|c| * scale
           # from then on (measured: sum|c| = 4e5 gives 0.14 on data of size 8)
           + (EPS32 * S.hist_c * scale if f32 else 0.0)) * (1 + dist)
    if abs(Pa - Pb) > margin:
        S.add(["C10"], "storage_objective", (cls, "objective_differs_across_storage"),
              dict(P_a=float(Pa), P_b=float(Pb), margin=float(margin), dist=dist, tol=tol),
              dict(feat0, gap_over_margin=float(abs(Pa - Pb) / margin) if margin > 0 else float("inf"),
                   datafit=pr.loss.name, fi=pr.fit_intercept, criterion=crit,
                   has_zero_columns=bool((~pr.absX.any(axis=0)).any())), i)


def judge_reweighting(S, mid, ds, Xd, coefs, feat0, i):
    """C03: iterative reweighting never increases the non-convex objective it majorises.
    Each weighted-L1 surrogate is solved to the solver's tolerance, so the reference objective
    of the iterate after reweighting k + 1 may exceed that of iterate k by at most what an
    inexact surrogate solve allows (see the slack below)."""
    params = dict(S.args[mid])
    fam = dict(params["family"], knobs=params.get("knobs") or {})
    pr, info = E.reference_problem("IterativeReweightedL1", params, Xd, np.array(ds["y"], dtype=float), family=fam)
    tol = info["tol"]
    objs = [pr.objective(w, 0.0) for w in coefs]
    for k in range(1, len(objs)):
        dw = float(np.sum(np.abs(coefs[k] - coefs[k - 1])))
        scale = pr.rounding_scale(coefs[k], 0.0)
        # every surrogate is solved from a cold start, so it need not improve on the previous
        # iterate: Q(w_k+1) - min Q <= tol * ||w_k+1 - w*||_1 (convexity, tol-stationarity), and
        # alpha * min(weights) * ||w*||_1 <= Q(w*) <= Q(0) = ||y||^2 / 2n bounds the unknown w*
        wprev = np.abs(np.asarray(coefs[k - 1], dtype=float))
        pn, pa = fam["penalty"], fam["pargs"]
        if pn == "L0_5":
            wts = 1.0 / (2.0 * np.sqrt(wprev) + 1e-12)
        elif pn == "L2_3":
            wts = 2.0 / (3.0 * wprev ** (1.0 / 3.0) + 1e-12)
        else:
            wts = 1.0 / (wprev + float(pa.get("eps", 1.0)))
        yv = np.asarray(ds["y"], dtype=float)
        wmin = float(np.min(wts)) if len(wts) else 1.0
        D = float(yv @ yv) / (2 * len(yv)) / max(float(pa["alpha"]) * wmin, 1e-300)
        slack = tol * (1 + REL) * (2 * dw + float(np.sum(np.abs(coefs[k]))) + D) \
            + 1e-9 * (1 + abs(objs[k - 1])) + 1e4 * EPS * scale
        if info["criterion"] != "subdiff":
            Lc = pr.unit_lipschitz(coefs[k], 0.0, mode="global")
            slack += tol * (float(np.sum(Lc)) + 1.0) * (dw + pr.p * tol) + tol * pr.p * pr.pen.slope_scale() * 10
        if objs[k] > objs[k - 1] + slack:
            S.add(["C03"], "reweighting_descent", ("IterativeReweightedL1", "objective_increases"),
                  dict(k=k, before=float(objs[k - 1]), after=float(objs[k]), slack=float(slack)),
                  dict(feat0, penalty=fam["penalty"], k=k), i)
            break
