"""Minimise a violating plan while the same violation class (property, signature) persists.

    python -m sim.shrink --engine twin --plan PLAN.json --prop C01 --sig 'a|b|c' --out REPLAY.json

Domain-aware ddmin: drop operations and faults, lower budgets, reset knobs, simplest storage,
delete features / samples, round data.
"""
import argparse
import copy
import json
import sys
import time

import numpy as np


def reproduces(plan, prop, sig, execute):
    try:
        rec = execute(plan)
    except Exception:
        return None
    for v in rec["violations"]:
        if prop in v["prop"] and "|".join(str(x) for x in v["sig"]) == sig:
            return v
    return None


def _drop_feature(plan, j):
    p2 = copy.deepcopy(plan)
    X = np.array(p2["data"]["X"], dtype=float)
    if X.shape[1] <= 1:
        return None
    fam = p2["family"]
    if fam["datafit"] == "QuadraticSVC":
        return None
    p2["data"]["X"] = np.delete(X, j, axis=1).tolist()
    pa = fam["pargs"]
    if "grp_ptr" in pa:
        return None
    for key in ("weights", "weights_features", "alphas"):
        if key in pa and len(pa[key]) == X.shape[1]:
            pa[key] = np.delete(np.array(pa[key]), j).tolist()
    for op in p2["ops"]:
        if op.get("w0") is not None:
            w0 = np.array(op["w0"], dtype=float)
            if w0.shape[0] >= X.shape[1]:
                op["w0"] = np.delete(w0, j, axis=0).tolist()
    return p2


def _drop_sample(plan, i):
    p2 = copy.deepcopy(plan)
    X = np.array(p2["data"]["X"], dtype=float)
    if X.shape[0] <= 2:
        return None
    fam = p2["family"]
    if fam["datafit"] == "QuadraticSVC":
        return None
    ynew = np.delete(np.array(p2["data"]["y"], dtype=float), i, axis=0)
    kind = p2["data"].get("kind")
    if kind == "bin" and len(np.unique(ynew)) < 2:
        return None        # both classes must remain
    if kind == "surv" and not np.any(ynew[:, 1] != 0):
        return None        # at least one observed event must remain
    if kind == "count" and not np.any(ynew > 0):
        return None        # all-zero counts have no finite maximum likelihood
    p2["data"]["X"] = np.delete(X, i, axis=0).tolist()
    p2["data"]["y"] = ynew.tolist()
    da = fam.get("dargs") or {}
    if "sample_weights" in da:
        da["sample_weights"] = np.delete(np.array(da["sample_weights"]), i).tolist()
    return p2


def candidates_est(plan):
    """Estimator-level histories: drop operations (with what depends on them), simplest
    container, fewer samples, fewer path points, simpler constructor arguments."""
    ops = plan["ops"]
    for i, op in enumerate(ops):
        p2 = copy.deepcopy(plan)
        if op["op"] == "new":
            mid = op["id"]
            p2["ops"] = [o for o in p2["ops"] if o.get("id") != mid and mid not in (o.get("a"), o.get("b"))]
        else:
            del p2["ops"][i]
        if any(o["op"] in ("fit", "path") for o in p2["ops"]):
            yield "drop_op", p2
    for i, op in enumerate(ops):
        if op.get("container", "F") != "F" and op["op"] in ("fit", "path") \
                and not any(o["op"] == "compare" for o in ops):
            p2 = copy.deepcopy(plan)
            p2["ops"][i]["container"] = "F"
            yield "container_F", p2
        if op.get("labels") is not None:
            p2 = copy.deepcopy(plan)
            p2["ops"][i]["labels"] = None
            yield "plain_labels", p2
        if op["op"] == "path" and len(op["alphas"]) > 1:
            for j in range(len(op["alphas"])):
                p2 = copy.deepcopy(plan)
                del p2["ops"][i]["alphas"][j]
                yield "drop_alpha", p2
        if op["op"] == "new":
            a = op["args"]
            # replicas that a `compare` operation pairs (C10) must keep identical constructor
            # arguments: a change is applied to both or not at all
            partners = {o["b"] if o["a"] == op["id"] else o["a"] for o in ops
                        if o["op"] == "compare" and op["id"] in (o["a"], o["b"])}
            twins = [j for j, o in enumerate(ops) if o["op"] == "new" and o["id"] in partners]
            if twins and min(twins) < i:
                continue            # handled from the first replica of the pair
            for name, simple in (("p0", 10), ("ws_strategy", "subdiff"), ("warm_start", False),
                                 ("positive", False)):
                if name in a and a[name] != simple:
                    p2 = copy.deepcopy(plan)
                    for j in [i] + twins:
                        if name in p2["ops"][j]["args"]:
                            p2["ops"][j]["args"][name] = simple
                    yield "arg_" + name, p2
            for name in ("max_iter", "max_epochs"):
                if name in a and a[name] > 1:
                    p2 = copy.deepcopy(plan)
                    for j in [i] + twins:
                        if name in p2["ops"][j]["args"]:
                            p2["ops"][j]["args"][name] = int(a[name] // 2)
                    yield "lower_" + name, p2
    used = {o["data"] for o in ops if "data" in o}
    for d in sorted(used):
        ds = plan["datasets"][d]
        X = np.array(ds["X"], dtype=float)
        has_sw = any("sample_weights" in ((o.get("args") or {}).get("family") or {}).get("dargs", {})
                     for o in ops if o["op"] == "new")
        if has_sw:
            continue
        for r in range(X.shape[0] - 1, -1, -1):
            if X.shape[0] <= 3:
                break
            ynew = np.delete(np.array(ds["y"], dtype=float), r, axis=0)
            if ds["kind"] == "bin" and len(np.unique(ynew)) < 2:
                continue
            if ds["kind"] == "surv" and not np.any(ynew[:, 1] != 0):
                continue
            p2 = copy.deepcopy(plan)
            p2["datasets"][d]["X"] = np.delete(X, r, axis=0).tolist()
            p2["datasets"][d]["y"] = ynew.tolist()
            yield "drop_sample", p2


def candidates(plan):
    if plan.get("level") == "est":
        yield from candidates_est(plan)
        return
    if plan.get("level") == "reuse":
        # solver-object reuse histories: simplest budgets / storage / mode
        k = plan["knobs"]
        for name, simple in (("max_iter", 1), ("max_epochs", 1), ("max_epochs", 7), ("max_pn_iter", 1),
                             ("p0", 10), ("ws_strategy", "subdiff")):
            if name in k and k[name] != simple:
                p2 = copy.deepcopy(plan)
                p2["knobs"][name] = simple
                yield "knob_" + name, p2
        if plan.get("storage") != "F":
            p2 = copy.deepcopy(plan)
            p2["storage"] = "F"
            yield "storage_F", p2
        if plan.get("mode") != "new_array":
            p2 = copy.deepcopy(plan)
            p2["mode"] = "new_array"
            yield "mode_new_array", p2
        return
    if plan.get("level") == "rng":
        if len(plan["rng_draws"]) > 1:
            h = len(plan["rng_draws"]) // 2
            for part in (plan["rng_draws"][:h], plan["rng_draws"][h:]):
                p2 = copy.deepcopy(plan)
                p2["rng_draws"] = part
                yield "halve_draws", p2
        return
    ops = plan["ops"]
    # 1. drop operations
    for i in range(len(ops)):
        if len(ops) > 1:
            p2 = copy.deepcopy(plan)
            del p2["ops"][i]
            yield "drop_op", p2
    # 2. drop faults
    for i, op in enumerate(ops):
        f = op.get("faults") or {}
        if f.get("ws_order") is not None:
            p2 = copy.deepcopy(plan)
            p2["ops"][i]["faults"].pop("ws_order")
            yield "drop_ws_order", p2
        for k in list((f.get("aa") or {})):
            p2 = copy.deepcopy(plan)
            del p2["ops"][i]["faults"]["aa"][k]
            yield "drop_aa", p2
    # 3. shrink grids
    for i, op in enumerate(ops):
        if op["op"] == "grid" and len(op["budgets"]) > 1:
            b = op["budgets"]
            for half in (b[:len(b) // 2], b[len(b) // 2:]):
                p2 = copy.deepcopy(plan)
                p2["ops"][i]["budgets"] = half
                yield "halve_grid", p2
            if len(b) <= 6:
                for j in range(len(b)):
                    p2 = copy.deepcopy(plan)
                    del p2["ops"][i]["budgets"][j]
                    yield "drop_budget", p2
        if op["op"] == "path" and len(op["alphas"]) > 1:
            for j in range(len(op["alphas"])):
                p2 = copy.deepcopy(plan)
                del p2["ops"][i]["alphas"][j]
                yield "drop_alpha", p2
    # 4. simplify knobs / start / storage
    for i, op in enumerate(ops):
        k = op.get("knobs") or {}
        for name, simple in (("p0", 10), ("ws_strategy", "subdiff"), ("use_acc", False),
                             ("greedy_cd", False)):
            if name in k and k[name] != simple:
                p2 = copy.deepcopy(plan)
                p2["ops"][i]["knobs"][name] = simple
                yield "knob_" + name, p2
        for name in ("max_iter", "max_epochs", "max_pn_iter"):
            if name in k and k[name] > 1:
                for new in (k[name] // 2, k[name] - 1):
                    p2 = copy.deepcopy(plan)
                    p2["ops"][i]["knobs"][name] = int(new)
                    yield "lower_" + name, p2
        if op.get("storage", "F") != "F":
            p2 = copy.deepcopy(plan)
            p2["ops"][i]["storage"] = "F"
            yield "storage_F", p2
        if op.get("start") in ("point", "buffers", "cold_buf") and op["op"] in ("solve", "grid"):
            p2 = copy.deepcopy(plan)
            p2["ops"][i]["start"] = "cold"
            p2["ops"][i]["w0"] = None
            yield "cold_start", p2
    if plan.get("matrix"):
        return      # a cell's data are part of the cell: only knobs and faults are simplified
    # 5. data reduction
    X = np.array(plan["data"]["X"], dtype=float)
    for j in range(X.shape[1] - 1, -1, -1):
        p2 = _drop_feature(plan, j)
        if p2 is not None:
            yield "drop_feature", p2
    for i in range(X.shape[0] - 1, -1, -1):
        p2 = _drop_sample(plan, i)
        if p2 is not None:
            yield "drop_sample", p2
    # 6. rounding
    for digits in (2, 3):
        p2 = copy.deepcopy(plan)
        from .gen import sig3
        p2["data"]["X"] = sig3(np.array(plan["data"]["X"], dtype=float), digits).tolist()
        if plan["data"].get("kind") in ("reg", "multi"):
            p2["data"]["y"] = sig3(np.array(plan["data"]["y"], dtype=float), digits).tolist()
        if p2["data"] != plan["data"]:
            yield "round", p2


def shrink(plan, prop, sig, execute, wall=40.0):
    t0 = time.time()
    best = plan
    v = reproduces(best, prop, sig, execute)
    if v is None:
        return None, None, 0
    steps = 0
    improved = True
    while improved and time.time() - t0 < wall:
        improved = False
        for name, cand in candidates(best):
            if time.time() - t0 > wall:
                break
            v2 = reproduces(cand, prop, sig, execute)
            if v2 is not None:
                best, v = cand, v2
                steps += 1
                improved = True
                break
    return best, v, steps


def main(argv=None):
    ap = argparse.ArgumentParser()
    ap.add_argument("--engine", required=True)
    ap.add_argument("--plan", required=True)
    ap.add_argument("--prop", required=True)
    ap.add_argument("--sig", required=True)
    ap.add_argument("--out", required=True)
    ap.add_argument("--wall", type=float, default=40.0)
    args = ap.parse_args(argv)
    from . import env
    env.setup(args.engine)
    from . import checks_registry as R
    from .util import dumps
    plan = json.load(open(args.plan))
    R.worker_init(plan["check"])

    def execute(p):
        return R.execute(p["check"], p)
    best, v, steps = shrink(plan, args.prop, args.sig, execute, args.wall)
    if best is None:
        print("SHRINK: original plan does not reproduce")
        return 2
    replay = dict(property=args.prop, engine=args.engine, expected_sig=args.sig,
                  violation=dict(oracle=v["oracle"], detail=v["detail"], feat=v["feat"]),
                  shrink_steps=steps,
                  origin=dict(check=plan["check"], seed=plan.get("seed"), run=plan.get("run")),
                  plan=best)
    with open(args.out, "w") as f:
        f.write(dumps(replay, indent=1))
    print(f"SHRINK: {steps} steps -> {args.out}")
    return 0


if __name__ == "__main__":
    sys.exit(main())
