"""A pristine fork server: forked before the process has fitted or compiled anything; every
request is executed in a grandchild forked from that pristine state (modules imported, no
jitclass compiled, caches empty, RNG untouched), i.e. the state of a fresh interpreter
after imports.  Used as the 'same fit executed alone' oracle of C18."""
import os
import pickle
import struct

_SERVER = {"obj": None}


def _read_exact(fd, n):
    buf = b""
    while len(buf) < n:
        chunk = os.read(fd, n - len(buf))
        if not chunk:
            raise EOFError
        buf += chunk
    return buf


def _send(fd, obj):
    data = pickle.dumps(obj)
    os.write(fd, struct.pack("<Q", len(data)))
    view = memoryview(data)
    while view:
        n = os.write(fd, view[:65536])
        view = view[n:]


def _recv(fd):
    (n,) = struct.unpack("<Q", _read_exact(fd, 8))
    return pickle.loads(_read_exact(fd, n))


class FreshServer:
    def __init__(self, handler):
        self.req_r, self.req_w = os.pipe()
        self.res_r, self.res_w = os.pipe()
        self.pid = os.fork()
        if self.pid == 0:
            os.close(self.req_w)
            os.close(self.res_r)
            self._serve(handler)
            os._exit(0)
        os.close(self.req_r)
        os.close(self.res_w)

    def _serve(self, handler):
        while True:
            try:
                req = _recv(self.req_r)
            except EOFError:
                return
            pid = os.fork()
            if pid == 0:
                try:
                    out = ("ok", handler(req))
                except BaseException as e:  # noqa
                    out = ("error", repr(e))
                try:
                    _send(self.res_w, out)
                finally:
                    os._exit(0)
            _, status = os.waitpid(pid, 0)
            if status != 0:
                _send(self.res_w, ("died", status))

    def request(self, req):
        _send(self.req_w, req)
        return _recv(self.res_r)

    def close(self):
        try:
            os.close(self.req_w)
            os.waitpid(self.pid, 0)
        except OSError:
            pass


def start(handler):
    if _SERVER["obj"] is None:
        _SERVER["obj"] = FreshServer(handler)
    return _SERVER["obj"]


def get():
    return _SERVER["obj"]
