import json
import numpy as np


def jsonable(o):
    if isinstance(o, dict):
        return {str(k): jsonable(v) for k, v in o.items()}
    if isinstance(o, (list, tuple, set)):
        return [jsonable(v) for v in o]
    if isinstance(o, np.ndarray):
        return jsonable(o.tolist())
    if isinstance(o, (np.bool_,)):
        return bool(o)
    if isinstance(o, np.integer):
        return int(o)
    if isinstance(o, np.floating):
        o = float(o)
    if isinstance(o, float):
        if o != o:
            return "nan"
        if o in (float("inf"), float("-inf")):
            return "inf" if o > 0 else "-inf"
        return o
    return o


def dumps(o, **kw):
    return json.dumps(jsonable(o), **kw)


def sig_str(sig):
    return "|".join(str(x) for x in sig)
