"""Reference composed problem  loss(X w + b) + lin . w + penalty(w):  objective, gradients,
optimality certificate, critical regularisation strength, and a slow reference optimiser.

Imports nothing from skglm."""
import numpy as np
import scipy.optimize

from . import losses as L_
from . import penalties as P_

EPS = np.finfo(float).eps
INF = float("inf")


def dense(X):
    if hasattr(X, "toarray"):
        X = X.toarray()
    return np.array(X, dtype=float, order="C")


class Problem:
    def __init__(self, X, loss, penalty, fit_intercept=False):
        self.X = dense(X)
        self.n, self.p = self.X.shape
        self.loss = loss
        self.pen = penalty
        self.fit_intercept = bool(fit_intercept)
        self.multitask = penalty.kind == "row"
        self.absX = np.abs(self.X)

    # -------------------------------------------------------------- basics
    def split(self, coefs):
        """coefs as returned by a solver (intercept last) -> (w, b)."""
        coefs = np.asarray(coefs, dtype=float)
        if self.fit_intercept:
            return coefs[:self.p], coefs[self.p]
        return coefs[:self.p], (np.zeros(coefs.shape[1]) if self.multitask else 0.0)

    def predictor(self, w, b=0.0):
        return self.X @ w + b

    def smooth_value(self, w, b=0.0):
        v = self.loss.value(self.predictor(w, b))
        if self.loss.lin_coef:
            v += self.loss.lin_coef * float(np.sum(w))
        return v

    def objective(self, w, b=0.0):
        pv = self.pen.value(w)
        if pv == INF:
            return INF
        return self.smooth_value(w, b) + pv

    def grad(self, w, b=0.0):
        u = self.predictor(w, b)
        gu = self.loss.grad(u)
        g = self.X.T @ gu
        if self.loss.lin_coef:
            g = g + self.loss.lin_coef
        gb = gu.sum(axis=0)
        return g, gb

    def finite(self, w, b=0.0):
        return bool(np.all(np.isfinite(w)) and np.all(np.isfinite(b)))

    # -------------------------------------------------------------- curvature
    def unit_lipschitz(self, w=None, b=0.0, mode="global"):
        """Per unit curvature bound of the smooth part.
        mode='global': the documented global constants (None if the loss has none)
        mode='local' : hess_bound(u) weighted norms at (w, b)."""
        pen = self.pen
        if mode == "global":
            if hasattr(self.loss, "curv_vec"):
                c = self.loss.curv_vec()
            else:
                cc = self.loss.curv_const()
                if cc is None:
                    return None
                c = np.full(self.n, cc)
        else:
            c = self.loss.hess_bound(self.predictor(w, b))
        if pen.kind == "group":
            G = pen.units(self.p)
            out = np.zeros(G)
            for k in range(G):
                idx = pen.unit_indices(k)
                M = self.X[:, idx] * np.sqrt(c)[:, None]
                out[k] = np.linalg.norm(M, ord=2) ** 2 if M.size else 0.0
            return out
        return (c[:, None] * self.X ** 2).sum(axis=0)

    def global_lipschitz(self):
        if hasattr(self.loss, "curv_vec"):
            c = self.loss.curv_vec()
            return np.linalg.norm(self.X * np.sqrt(c)[:, None], ord=2) ** 2
        cc = self.loss.curv_const()
        if cc is None:
            return None
        return cc * np.linalg.norm(self.X, ord=2) ** 2

    # -------------------------------------------------------------- rounding allowance
    def rounding_scale(self, w, b=0.0):
        """Magnitude against which floating-point error in a recomputed gradient is
        measured: max_j sum_i |X_ij| m_i c_i with m_i the size of the quantities entering
        sample i's derivative and c_i the curvature per sample."""
        u_abs = self.absX @ np.abs(w)
        if self.multitask:
            u_abs = u_abs.sum(axis=1)
            babs = float(np.sum(np.abs(b)))
            yabs = np.abs(self.loss.y).sum(axis=1)
        else:
            babs = abs(float(b))
            yabs = np.abs(self.loss.y) if np.ndim(self.loss.y) == 1 and len(self.loss.y) == self.n \
                else np.ones(self.n)
        m = u_abs + babs + yabs + 1.0
        c = self.loss.hess_bound(self.predictor(w, b)) if self.loss.smooth else np.ones(self.n)
        c = np.maximum(c, 1.0 / max(self.n, 1)) if np.all(np.isfinite(c)) else np.ones(self.n)
        return float(np.max(self.absX.T @ (m * c), initial=0.0)
                     + np.sum(m * c) + self.pen.slope_scale())

    # -------------------------------------------------------------- certificate
    def certificate(self, w, b=0.0, criterion="subdiff", curv="global", with_intercept=True):
        """First-order optimality violation of (w, b), everything recomputed from X, y.

        Returns dict(value, coef_part, intercept_part, allowance, per_unit)."""
        g, gb = self.grad(w, b)
        scale = self.rounding_scale(w, b)
        # (1e5 eps: the solvers' gradients come from an incrementally updated model fit; on a
        # design with a column of scale 1e6 the two computations were observed 3.6e4 eps apart)
        allowance = 1e5 * EPS * scale
        if criterion == "subdiff":
            per = self.pen.subdiff_dist(w, g)
        elif criterion == "fixpoint":
            Lc = self.unit_lipschitz(w, b, mode=curv)
            if Lc is None:
                Lc = self.unit_lipschitz(w, b, mode="local")
            per = self.pen.fixpoint_res(w, g, Lc)
            pos = Lc[Lc > 0]
            if len(pos):
                allowance = allowance / float(np.min(pos)) if np.min(pos) < 1 else allowance
            if not self.pen.convex:
                # non-convex proxes are minimised numerically (golden section): accuracy
                # about sqrt(eps) relative to the size of the coefficients
                allowance += 1e-7 * (1.0 + float(np.max(np.abs(w), initial=0.0)))
        elif criterion == "grad":
            per = np.abs(g)
        else:
            raise ValueError(criterion)
        coef_part = float(np.max(per)) if len(per) else 0.0
        ipart = float(np.max(np.abs(gb))) if (self.fit_intercept and with_intercept) else 0.0
        return dict(value=max(coef_part, ipart), coef_part=coef_part, intercept_part=ipart,
                    allowance=float(allowance), per_unit=np.asarray(per, dtype=float))

    # -------------------------------------------------------------- critical strength
    def null_fit(self):
        """Optimise the unpenalised part (intercept and unpenalised units) with all
        penalised coefficients at zero.  Returns (w0, b0)."""
        pmask = self.pen.penalized_mask(self.p)
        free = []
        if self.pen.kind == "group":
            for k in range(self.pen.units(self.p)):
                if not pmask[k]:
                    free.extend(list(self.pen.unit_indices(k)))
        else:
            free = list(np.where(~pmask)[0])
        T = self.loss.y.shape[1] if self.multitask else None
        shape_w = (self.p, T) if self.multitask else (self.p,)
        nb = (T if self.multitask else 1) if self.fit_intercept else 0
        nfree = len(free) * (T if self.multitask else 1)
        if nfree + nb == 0:
            return np.zeros(shape_w), (np.zeros(T) if self.multitask else 0.0)

        def unpack(z):
            w = np.zeros(shape_w)
            if nfree:
                w[free] = z[:nfree].reshape((len(free),) + shape_w[1:])
            if nb:
                b = z[nfree:] if self.multitask else float(z[nfree])
            else:
                b = np.zeros(T) if self.multitask else 0.0
            return w, b

        def f(z):
            w, b = unpack(z)
            v = self.smooth_value(w, b)
            g, gb = self.grad(w, b)
            parts = []
            if nfree:
                parts.append(np.asarray(g)[free].ravel())
            if nb:
                parts.append(np.atleast_1d(gb).ravel())
            return v, np.concatenate(parts)

        z0 = np.zeros(nfree + nb)
        if isinstance(self.loss, (L_.Quadratic, L_.WeightedQuadratic, L_.QuadraticMultiTask)):
            # closed form (weighted) least squares
            cols = [self.X[:, free]] if nfree else []
            if nb:
                cols.append(np.ones((self.n, 1)))
            A = np.hstack(cols)
            s = getattr(self.loss, "s", np.ones(self.n))
            sw = np.sqrt(s)[:, None]
            Y = self.loss.y if self.multitask else self.loss.y[:, None]
            sol = np.linalg.lstsq(A * sw, Y * sw, rcond=None)[0]
            nf = len(free)
            w = np.zeros(shape_w)
            if nf:
                w[free] = sol[:nf] if self.multitask else sol[:nf, 0]
            b = (sol[nf] if self.multitask else float(sol[nf, 0])) if nb else \
                (np.zeros(T) if self.multitask else 0.0)
            return w, b
        res = scipy.optimize.minimize(f, z0, jac=True, method="BFGS",
                                      options=dict(gtol=1e-13, maxiter=2000))
        z = res.x
        # Newton polish with the diagonal Hessian bound when exact
        return unpack(z)

    def alpha_max(self):
        """Smallest alpha (for unit base alpha) at which the penalised part is null, from
        the gradient at the null model with the unpenalised part optimised."""
        w0, b0 = self.null_fit()
        g, _ = self.grad(w0, b0)
        pen = self.pen
        pmask = pen.penalized_mask(self.p)
        positive = getattr(pen, "positive", False)
        best = 0.0
        if pen.kind == "group":
            wts = pen.weights
            for k in range(pen.units(self.p)):
                if not pmask[k]:
                    continue
                v = -g[pen.unit_indices(k)]
                if positive:
                    v = np.maximum(v, 0)
                best = max(best, np.linalg.norm(v) / wts[k])
        elif pen.kind == "row":
            for j in range(self.p):
                best = max(best, np.linalg.norm(g[j]))
        else:
            wts = getattr(pen, "weights", None)
            for j in range(self.p):
                if not pmask[j]:
                    continue
                v = -g[j]
                v = max(v, 0.0) if positive else abs(v)
                wt = 1.0 if wts is None else wts[j]
                best = max(best, v / wt)
            l1r = getattr(pen, "l1_ratio", None)
            if l1r is not None and l1r > 0:
                best = best / l1r
        return float(best), (w0, b0)

    # -------------------------------------------------------------- reference optimiser
    def _lp_pinball(self):
        """Quantile regression with a (weighted) l1 penalty as a linear programme:
        min q 1.u+ + (1 - q) 1.u- + sum_j a_j (w+_j + w-_j)
        s.t. X (w+ - w-) + (b+ - b-) + u+ - u- = y, everything >= 0."""
        pen = self.pen
        if pen.name not in ("L1", "WeightedL1"):
            raise NotImplementedError("LP witness: (weighted) l1 penalties only")
        n, p = self.n, self.p
        q = self.loss.q
        a = np.array([pen._a(j) for j in range(p)], dtype=float)
        nb = 1 if self.fit_intercept else 0
        c = np.concatenate([a, a, np.zeros(2 * nb), np.full(n, q), np.full(n, 1 - q)])
        A = np.hstack([self.X, -self.X] + ([np.ones((n, 1)), -np.ones((n, 1))] if nb else [])
                      + [np.eye(n), -np.eye(n)])
        bounds = [(0, None)] * p + [(0, 0 if getattr(pen, "positive", False) else None)] * p \
            + [(0, None)] * (2 * nb + 2 * n)
        res = scipy.optimize.linprog(c, A_eq=A, b_eq=self.loss.y, bounds=bounds, method="highs")
        if res.status != 0:
            raise RuntimeError("LP witness failed: " + str(res.message))
        w = res.x[:p] - res.x[p:2 * p]
        b = float(res.x[2 * p] - res.x[2 * p + 1]) if nb else 0.0
        return w, b, self.objective(w, b), int(getattr(res, "nit", 0))

    def _prox_all(self, z, step):
        pen = self.pen
        if pen.kind == "vec":
            return pen.prox_vec(z, step)
        out = np.array(z, dtype=float)
        if pen.kind == "sep":
            for j in range(self.p):
                out[j] = pen.prox_candidates(z[j], step, j)[0]
        elif pen.kind == "group":
            for k in range(pen.units(self.p)):
                idx = pen.unit_indices(k)
                out[idx] = pen.prox_group(z[idx], step, k)
        else:
            for j in range(self.p):
                out[j] = pen.prox_row_candidates(z[j], step, j)[0]
        return out

    def reference_optimum(self, max_iter=20000, tol=1e-13, w_start=None, b_start=None):
        """Monotone accelerated proximal gradient with backtracking and restart on (w, b).
        Convex problems only.  Returns (w, b, objective, n_iter).  The result is only ever
        used as a witness point with a known objective value."""
        if self.loss.name == "Pinball":
            # piecewise-linear objective: the witness is the vertex an LP solver returns
            # (or the caller's own point - any point is a valid witness)
            if w_start is not None:
                b0 = 0.0 if b_start is None else b_start
                return np.array(w_start, dtype=float), b0, self.objective(w_start, b0), 0
            return self._lp_pinball()
        T = self.loss.y.shape[1] if self.multitask else None
        w = np.zeros((self.p, T) if self.multitask else self.p) if w_start is None \
            else np.array(w_start, dtype=float)
        b = (np.zeros(T) if self.multitask else 0.0) if b_start is None else b_start
        if not self.pen.feasible(w):
            w = self._prox_all(w, 1.0)
        Lg = self.global_lipschitz()
        Lip = max(Lg if Lg else 1.0, 1e-12)
        zw, zb, t = w.copy(), b, 1.0
        obj = self.objective(w, b)
        it = 0
        for it in range(max_iter):
            g, gb = self.grad(zw, zb)
            fz = self.smooth_value(zw, zb)
            while True:
                step = 1.0 / Lip
                w_new = self._prox_all(zw - step * g, step)
                b_new = (zb - step * gb) if self.fit_intercept else zb
                dw, db = w_new - zw, b_new - zb
                q = (fz + np.sum(g * dw) + np.sum(gb * db)
                     + 0.5 * Lip * (np.sum(dw ** 2) + np.sum(db ** 2)))
                fn = self.smooth_value(w_new, b_new)
                if (np.isfinite(fn) and fn <= q + 1e-14 * (abs(q) + 1)) or Lip > 1e30:
                    break
                Lip *= 2
            obj_new = fn + self.pen.value(w_new)
            if not obj_new <= obj:
                if t > 1.0:          # momentum overshoot: restart from the best point
                    zw, zb, t = w.copy(), b, 1.0
                    continue
                break                # plain step does not decrease any more: rounding level
            move = np.sqrt(np.sum((w_new - w) ** 2) + np.sum((b_new - b) ** 2))
            t_new = (1 + np.sqrt(1 + 4 * t * t)) / 2
            zw = w_new + (t - 1) / t_new * (w_new - w)
            zb = b_new + (t - 1) / t_new * (b_new - b)
            w, b, obj, t = w_new, b_new, obj_new, t_new
            if move * Lip <= tol * (1 + np.sqrt(np.sum(w ** 2))):
                break
            Lip = max(Lip * 0.95, 1e-12)
        return w, b, obj, it + 1


def make_problem(X, y, loss_name, loss_args, pen_name, pen_args, fit_intercept):
    loss = L_.make_loss(loss_name, y, **(loss_args or {}))
    pen = P_.make_penalty(pen_name, **(pen_args or {}))
    Xd = dense(X)
    if loss_name == "QuadraticSVC":
        # design of the dual problem
        Xd = (Xd * np.asarray(y, dtype=float)[:, None]).T
    return Problem(Xd, loss, pen, fit_intercept)
