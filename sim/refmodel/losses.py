"""Reference losses, written from the documented formulas only (no skglm import).

Every loss is a function of the linear predictor ``u`` (= X w + b), of shape (n,) or,
for the multitask loss, (n, T).  Each class offers

    value(u)        the documented loss
    grad(u)         its gradient w.r.t. u
    hess_bound(u)   a diagonal upper bound of the Hessian w.r.t. u at u (exact when diagonal)
    curv_const()    a global bound on the second derivative per sample (None if unbounded)

Slow and obvious on purpose.
"""
import numpy as np


def _log1pexp(z):
    # log(1 + exp(z)) without overflow
    z = np.asarray(z, dtype=float)
    out = np.empty_like(z)
    pos = z > 0
    out[pos] = z[pos] + np.log1p(np.exp(-z[pos]))
    out[~pos] = np.log1p(np.exp(z[~pos]))
    return out


def _sigmoid(z):
    z = np.asarray(z, dtype=float)
    out = np.empty_like(z)
    pos = z >= 0
    out[pos] = 1.0 / (1.0 + np.exp(-z[pos]))
    ez = np.exp(z[~pos])
    out[~pos] = ez / (1.0 + ez)
    return out


class Loss:
    name = "loss"
    smooth = True
    # whether the documented problem has a linear term in the coefficients (SVC dual)
    lin_coef = 0.0

    def magnitude(self, u):
        """Per-sample magnitude entering the gradient (for rounding allowances)."""
        return np.abs(u) + np.abs(self.y) + 1.0


class Quadratic(Loss):
    """1 / (2 n) ||y - u||^2"""
    name = "Quadratic"

    def __init__(self, y):
        self.y = np.asarray(y, dtype=float)
        self.n = len(self.y)

    def value(self, u):
        return float(np.sum((self.y - u) ** 2) / (2 * self.n))

    def grad(self, u):
        return (u - self.y) / self.n

    def hess_bound(self, u):
        return np.full(self.n, 1.0 / self.n)

    def curv_const(self):
        return 1.0 / self.n


class WeightedQuadratic(Loss):
    """1 / (2 sum s) sum_i s_i (y_i - u_i)^2"""
    name = "WeightedQuadratic"

    def __init__(self, y, sample_weights):
        self.y = np.asarray(y, dtype=float)
        self.s = np.asarray(sample_weights, dtype=float)
        self.n = len(self.y)

    def value(self, u):
        return float(np.sum(self.s * (self.y - u) ** 2) / (2 * self.s.sum()))

    def grad(self, u):
        return self.s * (u - self.y) / self.s.sum()

    def hess_bound(self, u):
        return self.s / self.s.sum()

    def curv_const(self):
        return float(self.s.max() / self.s.sum())

    def curv_vec(self):
        return self.s / self.s.sum()


class Logistic(Loss):
    """1 / n sum_i log(1 + exp(-y_i u_i)),  y in {-1, 1}"""
    name = "Logistic"

    def __init__(self, y):
        self.y = np.asarray(y, dtype=float)
        self.n = len(self.y)

    def value(self, u):
        return float(np.sum(_log1pexp(-self.y * u)) / self.n)

    def grad(self, u):
        return -self.y * _sigmoid(-self.y * u) / self.n

    def hess_bound(self, u):
        s = _sigmoid(self.y * u)
        return s * (1 - s) / self.n

    def curv_const(self):
        return 1.0 / (4 * self.n)

    def magnitude(self, u):
        return np.ones(self.n) + np.abs(u) * 0.25


class Huber(Loss):
    """1 / n sum_i f(y_i - u_i), f(x) = x^2 / 2 if |x| <= delta else delta |x| - delta^2 / 2"""
    name = "Huber"

    def __init__(self, y, delta):
        self.y = np.asarray(y, dtype=float)
        self.delta = float(delta)
        self.n = len(self.y)

    def value(self, u):
        r = np.abs(self.y - u)
        quad = r <= self.delta
        return float((np.sum(0.5 * r[quad] ** 2)
                      + np.sum(self.delta * r[~quad] - 0.5 * self.delta ** 2)) / self.n)

    def grad(self, u):
        r = self.y - u
        return -np.clip(r, -self.delta, self.delta) / self.n

    def hess_bound(self, u):
        # global bound (the Hessian is 0 or 1/n per sample)
        return np.full(self.n, 1.0 / self.n)

    def curv_const(self):
        return 1.0 / self.n


class Poisson(Loss):
    """1 / n sum_i (exp(u_i) - y_i u_i)"""
    name = "Poisson"

    def __init__(self, y):
        self.y = np.asarray(y, dtype=float)
        self.n = len(self.y)

    def value(self, u):
        return float(np.sum(np.exp(u) - self.y * u) / self.n)

    def grad(self, u):
        return (np.exp(u) - self.y) / self.n

    def hess_bound(self, u):
        return np.exp(u) / self.n

    def curv_const(self):
        return None

    def magnitude(self, u):
        return np.exp(u) + np.abs(self.y) + 1.0


class Gamma(Loss):
    """1 / n sum_i (u_i + y_i exp(-u_i) - 1 - log y_i)"""
    name = "Gamma"

    def __init__(self, y):
        self.y = np.asarray(y, dtype=float)
        self.n = len(self.y)

    def value(self, u):
        return float(np.sum(u + self.y * np.exp(-u) - 1 - np.log(self.y)) / self.n)

    def grad(self, u):
        return (1 - self.y * np.exp(-u)) / self.n

    def hess_bound(self, u):
        return self.y * np.exp(-u) / self.n

    def curv_const(self):
        return None

    def magnitude(self, u):
        return self.y * np.exp(-u) + 1.0


class Cox(Loss):
    """Negative Cox partial log-likelihood / n, Breslow or Efron handling of ties.

    y[:, 0] = times, y[:, 1] = 1 if the event was observed, 0 if censored.
    Naive O(n^2) risk sets.
    """
    name = "Cox"

    def __init__(self, y, use_efron=False):
        y = np.asarray(y, dtype=float)
        self.y = y
        self.tm, self.s = y[:, 0], y[:, 1]
        self.n = len(self.tm)
        self.use_efron = bool(use_efron)
        n = self.n
        # A[i, j]: weight of exp(u_j) in the denominator attached to event i
        A = np.zeros((n, n))
        for i in range(n):
            if self.s[i] == 0:
                continue
            for j in range(n):
                if self.tm[j] >= self.tm[i]:
                    A[i, j] = 1.0
        if self.use_efron:
            # tied uncensored observations: the l-th (l = 0..d-1) of a tie group of
            # size d has l/d of the group's mass removed from its denominator
            done = set()
            for i in range(n):
                if self.s[i] == 0 or i in done:
                    continue
                H = [k for k in range(n) if self.s[k] != 0 and self.tm[k] == self.tm[i]]
                d = len(H)
                for rank, k in enumerate(H):
                    done.add(k)
                    for j in H:
                        A[k, j] -= rank / d
        self.A = A
        self.events = self.s != 0

    def value(self, u):
        eu = np.exp(u)
        D = self.A @ eu
        return float((-np.sum(self.s * u) + np.sum(np.log(D[self.events]))) / self.n)

    def grad(self, u):
        eu = np.exp(u)
        D = self.A @ eu
        inv = np.zeros(self.n)
        inv[self.events] = 1.0 / D[self.events]
        return (-self.s + eu * (self.A.T @ inv)) / self.n

    def hess_bound(self, u):
        eu = np.exp(u)
        D = self.A @ eu
        inv = np.zeros(self.n)
        inv[self.events] = 1.0 / D[self.events]
        return eu * (self.A.T @ inv) / self.n

    def curv_const(self):
        return None

    def magnitude(self, u):
        return np.ones(self.n) * (1.0 + np.abs(u).max())


class SVCDual(Loss):
    """Dual of the hinge-loss SVC: 1/2 ||u||^2 - sum(alpha), u = (y X)^T alpha.

    The 'design' of this problem is D = (y[:, None] * X).T, of shape (p, n); the
    coefficients are the n dual variables.  The linear term -sum(alpha) is exposed
    through ``lin_coef``.
    """
    name = "QuadraticSVC"
    lin_coef = -1.0

    def __init__(self, y):
        self.y = np.asarray(y, dtype=float)
        self.n = None

    def value(self, u):
        return float(0.5 * np.sum(u ** 2))

    def grad(self, u):
        return np.array(u, dtype=float)

    def hess_bound(self, u):
        return np.ones(len(u))

    def curv_const(self):
        return 1.0

    def magnitude(self, u):
        return np.abs(u) + 1.0


class SqrtQuadratic(Loss):
    """||y - u||_2"""
    name = "SqrtQuadratic"
    smooth = False

    def __init__(self, y):
        self.y = np.asarray(y, dtype=float)
        self.n = len(self.y)

    def value(self, u):
        return float(np.linalg.norm(self.y - u))

    def grad(self, u):
        r = u - self.y
        nr = np.linalg.norm(r)
        if nr == 0:
            return np.zeros_like(r)
        return r / nr

    def hess_bound(self, u):
        return np.full(self.n, 1.0 / np.linalg.norm(self.y - u))

    def curv_const(self):
        return None


class Pinball(Loss):
    """sum_i q max(y_i - u_i, 0) + (1 - q) max(u_i - y_i, 0)"""
    name = "Pinball"
    smooth = False

    def __init__(self, y, quantile_level):
        self.y = np.asarray(y, dtype=float)
        self.q = float(quantile_level)
        self.n = len(self.y)

    def value(self, u):
        r = self.y - u
        return float(np.sum(self.q * np.maximum(r, 0) + (1 - self.q) * np.maximum(-r, 0)))

    def grad(self, u):
        r = self.y - u
        return np.where(r > 0, -self.q, np.where(r < 0, 1 - self.q, 0.0))

    def hess_bound(self, u):
        return np.zeros(self.n)

    def curv_const(self):
        return None


class QuadraticMultiTask(Loss):
    """1 / (2 n) ||Y - U||_F^2"""
    name = "QuadraticMultiTask"

    def __init__(self, Y):
        self.y = np.asarray(Y, dtype=float)
        self.n = self.y.shape[0]

    def value(self, U):
        return float(np.sum((self.y - U) ** 2) / (2 * self.n))

    def grad(self, U):
        return (U - self.y) / self.n

    def hess_bound(self, U):
        return np.full(self.n, 1.0 / self.n)

    def curv_const(self):
        return 1.0 / self.n


def make_loss(name, y, **kw):
    if name in ("Quadratic", "QuadraticGroup"):
        return Quadratic(y)
    if name == "WeightedQuadratic":
        return WeightedQuadratic(y, kw["sample_weights"])
    if name in ("Logistic", "LogisticGroup"):
        return Logistic(y)
    if name == "Huber":
        return Huber(y, kw["delta"])
    if name == "Poisson":
        return Poisson(y)
    if name == "Gamma":
        return Gamma(y)
    if name == "Cox":
        return Cox(y, kw.get("use_efron", False))
    if name == "QuadraticSVC":
        return SVCDual(y)
    if name == "SqrtQuadratic":
        return SqrtQuadratic(y)
    if name == "Pinball":
        return Pinball(y, kw["quantile_level"])
    if name == "QuadraticMultiTask":
        return QuadraticMultiTask(y)
    raise KeyError(name)
