"""Self-test of the reference model: finite differences for every gradient, brute force
for every prox and subdifferential distance, agreement with scikit-learn / scipy on optima.
Exit status 0 iff everything agrees.  Run by MANIFEST.setup_cmd and by every check."""
import sys
import warnings
import numpy as np

from . import losses as L_, penalties as P_
from .problem import Problem, make_problem

FAIL = []


def check(cond, msg):
    if not cond:
        FAIL.append(msg)


def fd_grad(f, u, h=1e-6):
    g = np.zeros_like(u)
    it = np.nditer(u, flags=["multi_index"])
    for _ in it:
        i = it.multi_index
        up, um = u.copy(), u.copy()
        up[i] += h
        um[i] -= h
        g[i] = (f(up) - f(um)) / (2 * h)
    return g


def test_losses(rng):
    n = 9
    y = rng.standard_normal(n)
    ybin = np.where(rng.random(n) < 0.5, -1.0, 1.0)
    ypos = rng.random(n) * 3 + 0.1
    ycnt = rng.poisson(2.0, n).astype(float)
    tm = rng.integers(0, 4, n).astype(float)
    s = (rng.random(n) < 0.7).astype(float)
    s[0] = 1.0
    ycox = np.column_stack([tm, s])
    cases = [
        L_.Quadratic(y), L_.WeightedQuadratic(y, rng.random(n) + 0.1), L_.Logistic(ybin),
        L_.Huber(y, 0.7), L_.Poisson(ycnt), L_.Gamma(ypos), L_.Cox(ycox, False),
        L_.Cox(ycox, True), L_.SVCDual(ybin), L_.SqrtQuadratic(y),
    ]
    for loss in cases:
        u = rng.standard_normal(n) * 0.7
        g = loss.grad(u)
        gfd = fd_grad(loss.value, u)
        check(np.allclose(g, gfd, atol=1e-6, rtol=1e-5), f"loss grad {loss.name}")
        if loss.smooth and loss.name != "Huber":
            # hess_bound dominates (equals, for diagonal Hessians) the diagonal of the Hessian
            hd = np.array([fd_grad(lambda v: loss.grad(v)[i], u)[i] for i in range(n)])
            hb = loss.hess_bound(u)
            if loss.name == "Cox":
                check(np.all(hb >= hd - 1e-6), "Cox hess bound")
            else:
                check(np.allclose(hb, hd, atol=1e-5), f"loss hess {loss.name}")
    Y = rng.standard_normal((n, 3))
    mt = L_.QuadraticMultiTask(Y)
    U = rng.standard_normal((n, 3))
    check(np.allclose(mt.grad(U), fd_grad(mt.value, U), atol=1e-6), "multitask grad")
    # Cox Breslow without ties against the textbook formula
    tm2 = rng.permutation(n).astype(float)
    c2 = L_.Cox(np.column_stack([tm2, s]), False)
    u = rng.standard_normal(n)
    ref = 0.0
    for i in range(n):
        if s[i]:
            ref += -u[i] + np.log(np.sum(np.exp(u[tm2 >= tm2[i]])))
    check(abs(c2.value(u) - ref / n) < 1e-12, "cox breslow value")
    c3 = L_.Cox(np.column_stack([tm2, s]), True)
    check(abs(c3.value(u) - ref / n) < 1e-12, "cox efron == breslow without ties")


def one_sided(phi, x, h=1e-7):
    return (phi(x) - phi(x - h)) / h, (phi(x + h) - phi(x)) / h


def test_sep_penalties(rng):
    p = 5
    wts = np.array([0.0, 0.5, 1.0, 2.0, 1.3])
    pens = [
        P_.L1(0.7), P_.L1(0.7, True), P_.WeightedL1(0.7, wts), P_.WeightedL1(0.7, wts, True),
        P_.L1_plus_L2(0.7, 0.4), P_.L1_plus_L2(0.7, 0.4, True), P_.MCP(0.7, 3.0),
        P_.MCP(0.7, 3.0, True), P_.MCP(0.7, 3.0, False, wts), P_.SCAD(0.7, 3.7),
        P_.IndicatorBox(1.5), P_.PositiveConstraint(), P_.PowerPenalty(0.7, 0.5, "L0_5"),
        P_.PowerPenalty(0.7, 2 / 3, "L2_3"), P_.LogSum(0.7, 0.5), P_.LogSum(0.7, 1.5), P_.L2(0.7),
    ]
    special = [0.0, 0.7, 2.1, -0.7, 1.5, 0.7 * 3.7, 1e-3, -1e-3]
    for pen in pens:
        for trial in range(36):
            j = int(rng.integers(p))
            x = float(rng.choice(special)) if trial % 3 == 0 else float(rng.standard_normal() * 2)
            step = float(rng.choice([0.1, 0.5, 1.0, 2.0]))
            if isinstance(pen, P_.MCP) and step * pen._wt(j) >= pen.gamma:
                continue
            if isinstance(pen, P_.SCAD) and step >= pen.gamma - 1:
                continue

            def one(u):
                v = np.zeros(p)
                v[j] = u
                return pen.value(v)
            cands = pen.prox_candidates(x, step, j)
            # brute force
            grid = np.linspace(-abs(x) - 1, abs(x) + 1, 3001)
            vals = np.array([0.5 * (u - x) ** 2 + step * one(u) for u in grid])
            best = vals.min()
            for c in cands:
                hc = 0.5 * (c - x) ** 2 + step * one(c)
                check(hc <= best + 1e-6 * (1 + abs(best)),
                      f"prox {pen.name} x={x} step={step} j={j}: {c} not global ({hc} > {best})")
            # prox point is stationary: (x - u) / step in subdifferential at u
            u0 = cands[0]
            d = pen.subdiff_dist_1(u0, -(x - u0) / step, j)
            check(d <= 1e-7, f"prox/subdiff {pen.name} x={x} step={step} j={j} dist={d}")
        # subdifferential distance against one-sided derivatives
        for trial in range(36):
            j = int(rng.integers(p))
            wj = float(rng.choice(special)) if trial % 2 == 0 else float(rng.standard_normal() * 2)
            gj = float(rng.standard_normal() * 2)

            def one(u):
                v = np.zeros(p)
                v[j] = u
                return pen.value(v)
            if not np.isfinite(one(wj)):
                check(pen.subdiff_dist_1(wj, gj, j) == np.inf, f"infeasible dist {pen.name}")
                continue
            if isinstance(pen, P_.PowerPenalty) and wj == 0:
                check(pen.subdiff_dist_1(wj, gj, j) == 0, "power at 0")
                continue
            h = 1e-7
            left = (one(wj) - one(wj - h)) / h if np.isfinite(one(wj - h)) else -np.inf
            right = (one(wj + h) - one(wj)) / h if np.isfinite(one(wj + h)) else np.inf
            v = -gj
            if left > right + 1e-4:
                continue  # concave kink: empty regular subdifferential (not produced here)
            ref = max(left - v, v - right, 0.0)
            got = pen.subdiff_dist_1(wj, gj, j)
            check(abs(ref - got) <= 1e-4 * (1 + abs(ref)),
                  f"subdiff {pen.name} w={wj} g={gj} j={j}: ref {ref} got {got}")


def test_group_row(rng):
    grp_ptr = np.array([0, 2, 3, 6])
    grp_idx = np.array([4, 0, 2, 1, 3, 5])
    wts = np.array([1.0, 0.0, 2.0])
    pens = [P_.WeightedGroupL2(0.8, wts, grp_ptr, grp_idx),
            P_.WeightedGroupL2(0.8, wts, grp_ptr, grp_idx, True),
            P_.WeightedL1GroupL2(0.8, np.array([1.0, 0.5, 2.0]),
                                 np.array([0.3, 0.0, 1.0, 0.2, 0.7, 0.4]), grp_ptr, grp_idx)]
    for pen in pens:
        for trial in range(40):
            k = int(rng.integers(3))
            idx = pen.unit_indices(k)
            x = rng.standard_normal(len(idx)) * 1.5
            if trial % 4 == 0:
                x[0] = 0.0
            step = float(rng.choice([0.2, 1.0, 2.0]))
            u = pen.prox_group(x, step, k)

            def obj(v):
                w = np.zeros(6)
                w[idx] = v
                return 0.5 * np.sum((v - x) ** 2) + step * pen.value(w)
            base = obj(u)
            ok = True
            for _ in range(300):
                v = u + rng.standard_normal(len(idx)) * rng.choice([1e-3, 1e-1, 1.0])
                if obj(v) < base - 1e-9:
                    ok = False
            check(ok, f"group prox {pen.name} not minimal")
            w = np.zeros(6)
            w[idx] = u
            g = np.zeros(6)
            g[idx] = -(x - u) / step
            d = pen.subdiff_dist(w, g)[k]
            check(d <= 1e-9, f"group prox/subdiff {pen.name} dist={d}")
    rows = [P_.L2_1(0.8), P_.L2_05(0.8), P_.BlockMCP(0.8, 3.0), P_.BlockSCAD(0.8, 3.7)]
    for pen in rows:
        for trial in range(30):
            x = rng.standard_normal(3) * 2
            step = float(rng.choice([0.2, 1.0]))
            for u in pen.prox_row_candidates(x, step, 0):
                def obj(v):
                    return 0.5 * np.sum((v - x) ** 2) + step * pen.value(v[None, :])
                base = obj(u)
                ok = all(obj(u + rng.standard_normal(3) * sc) >= base - 1e-8
                         for sc in (1e-3, 1e-1, 1.0, 3.0) for _ in range(60))
                check(ok, f"row prox {pen.name} not minimal")
                d = pen.subdiff_dist(u[None, :], (-(x - u) / step)[None, :])[0]
                check(d <= 1e-6, f"row prox/subdiff {pen.name} dist={d}")
    # SLOPE prox: brute force
    sl = P_.SLOPE(np.array([1.0, 0.6, 0.3]))
    for _ in range(30):
        x = rng.standard_normal(3) * 2
        u = sl.prox_vec(x, 0.7)

        def obj(v):
            return 0.5 * np.sum((v - x) ** 2) + 0.7 * sl.value(v)
        base = obj(u)
        ok = all(obj(u + rng.standard_normal(3) * sc) >= base - 1e-9
                 for sc in (1e-3, 1e-1, 1.0) for _ in range(100))
        check(ok, "SLOPE prox not minimal")


def test_optima(rng):
    warnings.simplefilter("ignore")
    from sklearn.linear_model import Lasso, ElasticNet, LogisticRegression, MultiTaskLasso
    n, p = 25, 8
    X = rng.standard_normal((n, p))
    y = X[:, :3] @ np.array([1.0, -2.0, 0.5]) + 0.3 * rng.standard_normal(n) + 1.0
    for fi in (False, True):
        pr = make_problem(X, y, "Quadratic", {}, "L1", dict(alpha=0.1), fi)
        w, b, obj, _ = pr.reference_optimum()
        sk = Lasso(alpha=0.1, fit_intercept=fi, tol=1e-14, max_iter=100000).fit(X, y)
        o_sk = pr.objective(sk.coef_, sk.intercept_ if fi else 0.0)
        check(abs(obj - o_sk) <= 1e-10 * (1 + abs(obj)), f"lasso optimum fi={fi}: {obj} vs {o_sk}")
        check(pr.certificate(w, b)["value"] <= 1e-6, "lasso certificate at RM optimum")
        check(pr.certificate(sk.coef_, sk.intercept_ if fi else 0.0)["value"] <= 1e-6,
              "lasso certificate at sklearn optimum")
        pr = make_problem(X, y, "Quadratic", {}, "L1_plus_L2", dict(alpha=0.1, l1_ratio=0.3), fi)
        w, b, obj, _ = pr.reference_optimum()
        sk = ElasticNet(alpha=0.1, l1_ratio=0.3, fit_intercept=fi, tol=1e-14,
                        max_iter=100000).fit(X, y)
        o_sk = pr.objective(sk.coef_, sk.intercept_ if fi else 0.0)
        check(abs(obj - o_sk) <= 1e-10 * (1 + abs(obj)), f"enet optimum fi={fi}")
        amax, _ = pr.alpha_max()
        prz = make_problem(X, y, "Quadratic", {}, "L1_plus_L2",
                           dict(alpha=amax * 1.0001, l1_ratio=0.3), fi)
        wz = prz.reference_optimum()[0]
        check(np.all(wz == 0), "enet null above alpha_max")
    ybin = np.where(y > np.median(y), 1.0, -1.0)
    for fi in (False, True):
        pr = make_problem(X, ybin, "Logistic", {}, "L1", dict(alpha=0.05), fi)
        w, b, obj, _ = pr.reference_optimum()
        # (liblinear shuffles with its own generator and occasionally stops early: the external
        # witness is the best of a few fixed seeds - any point is an upper bound of the optimum)
        o_sk = np.inf
        for rs in range(4):
            sk = LogisticRegression(penalty="l1", C=1 / (n * 0.05), fit_intercept=fi, tol=1e-12,
                                    solver="liblinear", intercept_scaling=1e4, max_iter=100000,
                                    random_state=rs)
            sk.fit(X, ybin)
            o_sk = min(o_sk, pr.objective(sk.coef_[0], sk.intercept_[0] if fi else 0.0))
        check(abs(obj - o_sk) <= 1e-5 * (1 + abs(obj)) and obj <= o_sk + 1e-9,
              f"logreg optimum fi={fi}: {obj} vs {o_sk}")
        amax, _ = pr.alpha_max()
        w1 = make_problem(X, ybin, "Logistic", {}, "L1", dict(alpha=amax * 1.001), fi) \
            .reference_optimum()[0]
        w2 = make_problem(X, ybin, "Logistic", {}, "L1", dict(alpha=amax * 0.99), fi) \
            .reference_optimum()[0]
        check(np.all(w1 == 0) and np.any(w2 != 0), f"logreg alpha_max fi={fi}")
    Y = np.column_stack([y, 2 * y + rng.standard_normal(n)])
    pr = make_problem(X, Y, "QuadraticMultiTask", {}, "L2_1", dict(alpha=0.2), True)
    W, b, obj, _ = pr.reference_optimum()
    sk = MultiTaskLasso(alpha=0.2, tol=1e-14, max_iter=100000).fit(X, Y)
    o_sk = pr.objective(sk.coef_.T, sk.intercept_)
    check(abs(obj - o_sk) <= 1e-9 * (1 + abs(obj)), f"multitask optimum {obj} vs {o_sk}")
    # SVC dual against sklearn's hinge-loss LinearSVC (primal objective equality at optimum)
    from sklearn.svm import LinearSVC
    C = 0.7
    pr = make_problem(X, ybin, "QuadraticSVC", {}, "IndicatorBox", dict(alpha=C), False)
    a, _, dobj, _ = pr.reference_optimum(max_iter=50000)
    primal = np.inf
    for rs in range(4):     # weak duality: every primal value bounds -dobj from above
        sk = LinearSVC(C=C, loss="hinge", fit_intercept=False, tol=1e-12, max_iter=1000000,
                       random_state=rs).fit(X, ybin)
        wp = sk.coef_[0]
        primal = min(primal, 0.5 * wp @ wp + C * np.sum(np.maximum(0, 1 - ybin * (X @ wp))))
    check(abs(primal + dobj) <= 1e-5 * (1 + abs(primal)), f"svc duality {primal} vs {-dobj}")
    # group lasso via celer if present
    try:
        from celer import GroupLasso
        grp = 2
        gl = GroupLasso(groups=grp, alpha=0.1, fit_intercept=False, tol=1e-14).fit(X, y)
        ptr = np.arange(0, p + 1, grp)
        pr = make_problem(X, y, "QuadraticGroup", {}, "WeightedGroupL2",
                          dict(alpha=0.1, weights=np.ones(p // grp), grp_ptr=ptr,
                               grp_indices=np.arange(p)), False)
        w, b, obj, _ = pr.reference_optimum()
        o_c = pr.objective(gl.coef_, 0.0)
        check(abs(obj - o_c) <= 1e-9 * (1 + abs(obj)), f"group lasso optimum {obj} vs {o_c}")
    except ImportError:
        pass


def main():
    rng = np.random.default_rng(12345)
    test_losses(rng)
    test_sep_penalties(rng)
    test_group_row(rng)
    test_optima(rng)
    if FAIL:
        for f in FAIL[:40]:
            print("REFMODEL-SELFTEST-FAIL:", f)
        print(f"{len(FAIL)} failures")
        return 2
    print("refmodel selftest ok")
    return 0


if __name__ == "__main__":
    sys.exit(main())
