"""Reference penalties, written from the documented formulas only (no skglm import).

API (unit = coordinate for separable penalties, group for group penalties, row for
multitask penalties):

    value(w)              penalty value, +inf outside a configured constraint set
    feasible(w)           constraint predicate
    subdiff_dist(w, g)    per unit: Euclidean distance from -g to the regular subdifferential
    prox_candidates(x, step, unit)   list of (near-)global minimisers of
                          u -> 0.5 ||u - x||^2 + step * pen_unit(u)
    fixpoint_res(w, g, L) per unit: min over candidates of ||w - prox(w - g / L, 1 / L)||
    units(p) / unit_indices(k, p)
"""
import numpy as np

INF = float("inf")


def _golden(h, lo, hi, iters=90):
    gr = (np.sqrt(5) - 1) / 2
    a, b = lo, hi
    c = b - gr * (b - a)
    d = a + gr * (b - a)
    fc, fd = h(c), h(d)
    for _ in range(iters):
        if fc < fd:
            b, d, fd = d, c, fc
            c = b - gr * (b - a)
            fc = h(c)
        else:
            a, c, fc = c, d, fd
            d = a + gr * (b - a)
            fd = h(d)
    x = (a + b) / 2
    return x, h(x)


def _refine_by_derivative(dh, a, b, iters=200):
    """Root of the derivative dh in [a, b] by bisection, if it changes sign from - to +."""
    fa, fb = dh(a), dh(b)
    if not (fa < 0 < fb):
        return None
    for _ in range(iters):
        m = 0.5 * (a + b)
        if m == a or m == b:
            break
        if dh(m) < 0:
            a = m
        else:
            b = m
    return 0.5 * (a + b)


def scalar_prox_numeric(phi, x, step, n_grid=400, dphi=None):
    """All near-global minimisers of u -> 0.5 (u - x)^2 + step * phi(|u|), phi even.

    Brute force on [0, |x|] (the minimiser has the sign of x and is not larger than |x| for
    the non-decreasing penalties used here): grid, golden-section refinement around every
    local grid minimum, derivative bisection when dphi is given, plus the end points.
    Returns the minimisers whose objective is within 1e-9 (relative) of the best."""
    x = float(x)
    ax = abs(x)
    sgn = 1.0 if x >= 0 else -1.0

    def h(t):
        return 0.5 * (t - ax) ** 2 + step * phi(t)

    cands = [(0.0, h(0.0)), (ax, h(ax))]
    if ax > 0:
        grid = np.linspace(0.0, ax, n_grid + 1)
        vals = np.array([h(t) for t in grid])
        for i in range(len(grid)):
            left = vals[i - 1] if i > 0 else INF
            right = vals[i + 1] if i < len(grid) - 1 else INF
            if vals[i] <= left and vals[i] <= right:
                lo = grid[max(i - 1, 0)]
                hi = grid[min(i + 1, len(grid) - 1)]
                if hi > lo:
                    u, hu = _golden(h, lo, hi)
                    if dphi is not None:
                        # golden section resolves a minimiser only to sqrt(eps) |x|; the sign
                        # of the derivative resolves it to machine precision
                        lo2 = lo if lo > 0 else min(1e-300 + ax * 1e-12, hi)
                        r = _refine_by_derivative(lambda t: (t - ax) + step * dphi(t), lo2, hi)
                        if r is not None and h(r) <= hu + 1e-12 * (abs(hu) + 1e-300):
                            u, hu = r, h(r)
                    cands.append((u, hu))
    best = min(v for _, v in cands)
    tol = 1e-9 * (abs(best) + 1e-300) + 1e-300
    out = []
    for u, v in cands:
        if v <= best + tol and not any(abs(u - o) <= 1e-9 * (1 + abs(o)) for o in out):
            out.append(float(u))
    return [sgn * u for u in out]


class Penalty:
    kind = "sep"
    convex = True
    has_constraint = False

    def units(self, p):
        return p

    def unit_indices(self, k, p):
        return np.array([k])

    def feasible(self, w):
        return True

    def penalized_mask(self, p):
        return np.ones(self.units(p), dtype=bool)

    def slope_scale(self):
        return abs(getattr(self, "alpha", 1.0))

    # default fixpoint residual for separable penalties
    def fixpoint_res(self, w, g, L):
        w = np.asarray(w, dtype=float)
        res = np.zeros(len(w))
        for j in range(len(w)):
            if L[j] == 0:
                res[j] = self.zero_curv_res(w[j], j)
                continue
            step = 1.0 / L[j]
            cands = self.prox_candidates(w[j] - step * g[j], step, j)
            res[j] = min(abs(w[j] - c) for c in cands)
        return res

    def zero_curv_res(self, wj, j):
        # all-zero column: the fixed-point criterion has no step (1 / L_j is infinite).
        # Stationarity means w_j minimises the penalty alone; the residual is the smaller of
        # the two natural measures - the distance |w_j| to that minimiser (the fixed point
        # of an infinite step) and the subgradient violation (gradient units)
        d = self.subdiff_dist_1(wj, 0.0, j)
        return 0.0 if d == 0 else min(abs(wj), d)


# ---------------------------------------------------------------- separable

class _Sep(Penalty):
    def subdiff_dist(self, w, g):
        w = np.asarray(w, dtype=float)
        return np.array([self.subdiff_dist_1(w[j], g[j], j) for j in range(len(w))])

    def prox_candidates(self, x, step, j):
        return [self.prox_1(x, step, j)]


def _dist_interval(v, lo, hi):
    if v < lo:
        return lo - v
    if v > hi:
        return v - hi
    return 0.0


class L1(_Sep):
    name = "L1"

    def __init__(self, alpha, positive=False):
        self.alpha, self.positive = float(alpha), bool(positive)
        self.has_constraint = self.positive

    def _a(self, j):
        return self.alpha

    def value(self, w):
        w = np.asarray(w, dtype=float)
        if self.positive and np.any(w < 0):
            return INF
        return float(sum(self._a(j) * abs(w[j]) for j in range(len(w))))

    def feasible(self, w):
        return not (self.positive and np.any(np.asarray(w) < 0))

    def subdiff_dist_1(self, wj, gj, j):
        a = self._a(j)
        v = -gj
        if self.positive:
            if wj < 0:
                return INF
            if wj == 0:
                return _dist_interval(v, -INF, a)
            return abs(v - a)
        if wj == 0:
            return _dist_interval(v, -a, a)
        return abs(v - a * np.sign(wj))

    def prox_1(self, x, step, j):
        t = self._a(j) * step
        if x > t:
            return x - t
        if x < -t and not self.positive:
            return x + t
        return 0.0


class WeightedL1(L1):
    name = "WeightedL1"

    def __init__(self, alpha, weights, positive=False):
        super().__init__(alpha, positive)
        self.weights = np.asarray(weights, dtype=float)

    def _a(self, j):
        return self.alpha * self.weights[j]

    def penalized_mask(self, p):
        return self.weights != 0

    def slope_scale(self):
        return abs(self.alpha) * float(np.max(np.abs(self.weights)))


class L1_plus_L2(_Sep):
    name = "L1_plus_L2"

    def __init__(self, alpha, l1_ratio, positive=False):
        self.alpha, self.l1_ratio, self.positive = float(alpha), float(l1_ratio), bool(positive)
        self.has_constraint = self.positive

    def value(self, w):
        w = np.asarray(w, dtype=float)
        if self.positive and np.any(w < 0):
            return INF
        return float(self.alpha * self.l1_ratio * np.sum(np.abs(w))
                     + self.alpha * (1 - self.l1_ratio) / 2 * np.sum(w ** 2))

    def feasible(self, w):
        return not (self.positive and np.any(np.asarray(w) < 0))

    def subdiff_dist_1(self, wj, gj, j):
        a1 = self.alpha * self.l1_ratio
        a2 = self.alpha * (1 - self.l1_ratio)
        v = -gj
        if self.positive:
            if wj < 0:
                return INF
            if wj == 0:
                return _dist_interval(v, -INF, a1)
            return abs(v - a1 - a2 * wj)
        if wj == 0:
            return _dist_interval(v, -a1, a1)
        return abs(v - a1 * np.sign(wj) - a2 * wj)

    def prox_1(self, x, step, j):
        t = self.alpha * self.l1_ratio * step
        if x > t:
            r = x - t
        elif x < -t and not self.positive:
            r = x + t
        else:
            r = 0.0
        return r / (1 + step * self.alpha * (1 - self.l1_ratio))

    def slope_scale(self):
        return abs(self.alpha)


class MCP(_Sep):
    """pen(x) = alpha |x| - x^2 / (2 gamma) if |x| <= alpha gamma else gamma alpha^2 / 2,
    times weights_j when weighted."""
    name = "MCPenalty"
    convex = False

    def __init__(self, alpha, gamma, positive=False, weights=None):
        self.alpha, self.gamma, self.positive = float(alpha), float(gamma), bool(positive)
        self.weights = None if weights is None else np.asarray(weights, dtype=float)
        self.has_constraint = self.positive
        if weights is not None:
            self.name = "WeightedMCPenalty"

    def _wt(self, j):
        return 1.0 if self.weights is None else self.weights[j]

    def _pen(self, x):
        x = abs(x)
        if x <= self.alpha * self.gamma:
            return self.alpha * x - x * x / (2 * self.gamma)
        return self.gamma * self.alpha ** 2 / 2

    def value(self, w):
        w = np.asarray(w, dtype=float)
        if self.positive and np.any(w < 0):
            return INF
        return float(sum(self._wt(j) * self._pen(w[j]) for j in range(len(w))))

    def feasible(self, w):
        return not (self.positive and np.any(np.asarray(w) < 0))

    def subdiff_dist_1(self, wj, gj, j):
        a, wt = self.alpha, self._wt(j)
        v = -gj
        if self.positive and wj < 0:
            return INF
        if wj == 0:
            if self.positive:
                return _dist_interval(v, -INF, wt * a)
            return _dist_interval(v, -wt * a, wt * a)
        if abs(wj) < a * self.gamma:
            return abs(v - wt * (a * np.sign(wj) - wj / self.gamma))
        return abs(v)

    def prox_candidates(self, x, step, j):
        wt = self._wt(j)
        if self.positive and x <= 0:
            return [0.0]
        a, g = self.alpha, self.gamma
        return scalar_prox_numeric(lambda u: wt * self._pen(u), x, step,
                                   dphi=lambda t: wt * max(a - t / g, 0.0))

    def penalized_mask(self, p):
        if self.weights is None:
            return np.ones(p, dtype=bool)
        return self.weights != 0

    def slope_scale(self):
        m = 1.0 if self.weights is None else float(np.max(np.abs(self.weights)))
        return abs(self.alpha) * m


class SCAD(_Sep):
    name = "SCAD"
    convex = False

    def __init__(self, alpha, gamma):
        self.alpha, self.gamma = float(alpha), float(gamma)

    def _pen(self, x):
        x = abs(x)
        a, g = self.alpha, self.gamma
        if x <= a:
            return a * x
        if x <= a * g:
            return (2 * a * g * x - x * x - a * a) / (2 * (g - 1))
        return a * a * (g + 1) / 2

    def value(self, w):
        return float(sum(self._pen(x) for x in np.asarray(w, dtype=float)))

    def subdiff_dist_1(self, wj, gj, j):
        a, g = self.alpha, self.gamma
        v = -gj
        if wj == 0:
            return _dist_interval(v, -a, a)
        x = abs(wj)
        if x <= a:
            d = a
        elif x <= a * g:
            d = (a * g - x) / (g - 1)
        else:
            d = 0.0
        return abs(v - np.sign(wj) * d)

    def _dpen(self, t):
        a, g = self.alpha, self.gamma
        if t <= a:
            return a
        if t <= a * g:
            return (a * g - t) / (g - 1)
        return 0.0

    def prox_candidates(self, x, step, j):
        return scalar_prox_numeric(self._pen, x, step, dphi=self._dpen)


class IndicatorBox(_Sep):
    name = "IndicatorBox"
    has_constraint = True

    def __init__(self, alpha):
        self.alpha = float(alpha)

    def value(self, w):
        return 0.0 if self.feasible(w) else INF

    def feasible(self, w):
        w = np.asarray(w, dtype=float)
        return bool(np.all(w >= 0) and np.all(w <= self.alpha))

    def subdiff_dist_1(self, wj, gj, j):
        v = -gj
        if wj < 0 or wj > self.alpha:
            return INF
        if wj == 0 and wj == self.alpha:
            return 0.0
        if wj == 0:
            return _dist_interval(v, -INF, 0.0)
        if wj == self.alpha:
            return _dist_interval(v, 0.0, INF)
        return abs(v)

    def prox_1(self, x, step, j):
        return min(max(x, 0.0), self.alpha)

    def zero_curv_res(self, wj, j):
        return 0.0

    def slope_scale(self):
        return 0.0


class PositiveConstraint(_Sep):
    name = "PositiveConstraint"
    has_constraint = True

    def value(self, w):
        return 0.0 if self.feasible(w) else INF

    def feasible(self, w):
        return bool(np.all(np.asarray(w) >= 0))

    def subdiff_dist_1(self, wj, gj, j):
        v = -gj
        if wj < 0:
            return INF
        if wj == 0:
            return _dist_interval(v, -INF, 0.0)
        return abs(v)

    def prox_1(self, x, step, j):
        return max(x, 0.0)

    def zero_curv_res(self, wj, j):
        return 0.0

    def slope_scale(self):
        return 0.0


class PowerPenalty(_Sep):
    """alpha * sum |w_j|^q with q in {1/2, 2/3}."""
    convex = False

    def __init__(self, alpha, q, name):
        self.alpha, self.q, self.name = float(alpha), float(q), name

    def _pen(self, x):
        return self.alpha * abs(x) ** self.q

    def value(self, w):
        return float(sum(self._pen(x) for x in np.asarray(w, dtype=float)))

    def subdiff_dist_1(self, wj, gj, j):
        if wj == 0:
            return 0.0  # infinite slope at 0: the regular subdifferential is the whole line
        return abs(-gj - np.sign(wj) * self.alpha * self.q * abs(wj) ** (self.q - 1))

    def prox_candidates(self, x, step, j):
        return scalar_prox_numeric(self._pen, x, step,
                                   dphi=lambda t: self.alpha * self.q * t ** (self.q - 1))


class LogSum(_Sep):
    name = "LogSumPenalty"
    convex = False

    def __init__(self, alpha, eps):
        self.alpha, self.eps = float(alpha), float(eps)

    def _pen(self, x):
        return self.alpha * np.log1p(abs(x) / self.eps)

    def value(self, w):
        return float(sum(self._pen(x) for x in np.asarray(w, dtype=float)))

    def subdiff_dist_1(self, wj, gj, j):
        v = -gj
        if wj == 0:
            return _dist_interval(v, -self.alpha / self.eps, self.alpha / self.eps)
        return abs(v - np.sign(wj) * self.alpha / (self.eps + abs(wj)))

    def prox_candidates(self, x, step, j):
        return scalar_prox_numeric(self._pen, x, step,
                                   dphi=lambda t: self.alpha / (self.eps + t))

    def slope_scale(self):
        return abs(self.alpha / self.eps)


class L2(_Sep):
    name = "L2"

    def __init__(self, alpha):
        self.alpha = float(alpha)

    def value(self, w):
        return float(self.alpha * np.sum(np.asarray(w, dtype=float) ** 2) / 2)

    def subdiff_dist_1(self, wj, gj, j):
        return abs(gj + self.alpha * wj)

    def prox_1(self, x, step, j):
        return x / (1 + step * self.alpha)

    def slope_scale(self):
        return abs(self.alpha)


# ---------------------------------------------------------------- non separable

class SLOPE(Penalty):
    """sum_j alphas_j |w|_(j), alphas non-increasing, |w|_(1) >= |w|_(2) >= ..."""
    name = "SLOPE"
    kind = "vec"

    def __init__(self, alphas):
        self.alphas = np.asarray(alphas, dtype=float)
        self.alpha = float(self.alphas.max()) if len(self.alphas) else 0.0

    def value(self, w):
        a = np.sort(np.abs(np.asarray(w, dtype=float)))[::-1]
        return float(np.sum(a * self.alphas))

    def prox_vec(self, x, step):
        x = np.asarray(x, dtype=float)
        order = np.argsort(-np.abs(x), kind="stable")
        z = np.abs(x)[order] - step * self.alphas
        # isotonic regression (non-increasing) by pool-adjacent-violators, then clip at 0
        blocks = []  # (sum, count)
        for v in z:
            blocks.append([v, 1])
            while len(blocks) > 1 and blocks[-2][0] / blocks[-2][1] <= blocks[-1][0] / blocks[-1][1]:
                s, c = blocks.pop()
                blocks[-1][0] += s
                blocks[-1][1] += c
        sol = np.concatenate([np.full(c, max(s / c, 0.0)) for s, c in blocks])
        out = np.zeros_like(x)
        out[order] = sol
        return np.sign(x) * out

    def fixpoint_res_vec(self, w, g, L):
        w = np.asarray(w, dtype=float)
        return np.abs(w - self.prox_vec(w - g / L, 1.0 / L))

    def subdiff_dist(self, w, g):
        raise NotImplementedError

    def slope_scale(self):
        return self.alpha


# ---------------------------------------------------------------- groups

class _Grouped(Penalty):
    kind = "group"

    def units(self, p):
        return len(self.grp_ptr) - 1

    def unit_indices(self, k, p=None):
        return self.grp_indices[self.grp_ptr[k]: self.grp_ptr[k + 1]]

    def fixpoint_res(self, w, g, L):
        w = np.asarray(w, dtype=float)
        G = self.units(len(w))
        res = np.zeros(G)
        for k in range(G):
            idx = self.unit_indices(k)
            if L[k] == 0:
                d = float(self.subdiff_dist(w, np.zeros_like(w))[k])
                res[k] = min(float(np.linalg.norm(w[idx])), d)      # see Penalty.zero_curv_res
                continue
            step = 1.0 / L[k]
            res[k] = float(np.linalg.norm(w[idx] - self.prox_group(w[idx] - step * g[idx], step, k)))
        return res


def _bst(x, t):
    nx = np.linalg.norm(x)
    if nx <= t:
        return np.zeros_like(x)
    return (1 - t / nx) * x


class WeightedGroupL2(_Grouped):
    name = "WeightedGroupL2"

    def __init__(self, alpha, weights, grp_ptr, grp_indices, positive=False):
        self.alpha = float(alpha)
        self.weights = np.asarray(weights, dtype=float)
        self.grp_ptr = np.asarray(grp_ptr, dtype=int)
        self.grp_indices = np.asarray(grp_indices, dtype=int)
        self.positive = bool(positive)
        self.has_constraint = self.positive

    def weight_of(self, k):
        return self.weights[k]

    def value(self, w):
        w = np.asarray(w, dtype=float)
        if self.positive and np.any(w < 0):
            return INF
        return float(sum(self.alpha * self.weights[k] * np.linalg.norm(w[self.unit_indices(k)])
                         for k in range(self.units(len(w)))))

    def feasible(self, w):
        return not (self.positive and np.any(np.asarray(w) < 0))

    def subdiff_dist(self, w, g):
        w = np.asarray(w, dtype=float)
        G = self.units(len(w))
        out = np.zeros(G)
        for k in range(G):
            idx = self.unit_indices(k)
            wg, v = w[idx], -np.asarray(g)[idx]
            r = self.alpha * self.weights[k]
            nw = np.linalg.norm(wg)
            if self.positive:
                if np.any(wg < 0):
                    out[k] = INF
                elif nw == 0:
                    out[k] = max(0.0, np.linalg.norm(np.maximum(v, 0)) - r)
                else:
                    res = np.where(wg > 0, v - r * wg / nw, np.maximum(v, 0))
                    out[k] = np.linalg.norm(res)
            else:
                if nw == 0:
                    out[k] = max(0.0, np.linalg.norm(v) - r)
                else:
                    out[k] = np.linalg.norm(v - r * wg / nw)
        return out

    def prox_group(self, x, step, k):
        t = self.alpha * self.weights[k] * step
        if self.positive:
            return _bst(np.maximum(x, 0), t)
        return _bst(x, t)

    def penalized_mask(self, p):
        return self.weights != 0

    def slope_scale(self):
        return abs(self.alpha) * float(np.max(np.abs(self.weights)))


class WeightedL1GroupL2(_Grouped):
    """alpha (sum_g wg_g ||w_[g]|| + sum_j wf_j |w_j|)"""
    name = "WeightedL1GroupL2"

    def __init__(self, alpha, weights_groups, weights_features, grp_ptr, grp_indices):
        self.alpha = float(alpha)
        self.wg = np.asarray(weights_groups, dtype=float)
        self.wf = np.asarray(weights_features, dtype=float)
        self.grp_ptr = np.asarray(grp_ptr, dtype=int)
        self.grp_indices = np.asarray(grp_indices, dtype=int)

    def weight_of(self, k):
        return self.wg[k] + np.sum(self.wf[self.unit_indices(k)])

    def value(self, w):
        w = np.asarray(w, dtype=float)
        tot = sum(self.wg[k] * np.linalg.norm(w[self.unit_indices(k)])
                  for k in range(self.units(len(w))))
        return float(self.alpha * (tot + np.sum(self.wf * np.abs(w))))

    def subdiff_dist(self, w, g):
        w = np.asarray(w, dtype=float)
        G = self.units(len(w))
        out = np.zeros(G)
        for k in range(G):
            idx = self.unit_indices(k)
            wg, v = w[idx], -np.asarray(g)[idx]
            tf = self.alpha * self.wf[idx]
            r = self.alpha * self.wg[k]
            nw = np.linalg.norm(wg)
            if nw == 0:
                st = np.sign(v) * np.maximum(np.abs(v) - tf, 0)
                out[k] = max(0.0, np.linalg.norm(st) - r)
            else:
                res = np.zeros(len(idx))
                for i in range(len(idx)):
                    base = v[i] - r * wg[i] / nw
                    if wg[i] == 0:
                        res[i] = _dist_interval(base, -tf[i], tf[i])
                    else:
                        res[i] = abs(base - tf[i] * np.sign(wg[i]))
                out[k] = np.linalg.norm(res)
        return out

    def prox_group(self, x, step, k):
        idx = self.unit_indices(k)
        st = np.sign(x) * np.maximum(np.abs(x) - self.alpha * step * self.wf[idx], 0)
        return _bst(st, self.alpha * step * self.wg[k])

    def slope_scale(self):
        return abs(self.alpha) * float(np.max(np.abs(self.wg)) + np.max(np.abs(self.wf)))


# ---------------------------------------------------------------- rows (multitask)

class _Row(Penalty):
    kind = "row"

    def units(self, p):
        return p

    def value(self, W):
        W = np.asarray(W, dtype=float)
        return float(sum(self._pen(np.linalg.norm(W[j])) for j in range(W.shape[0])))

    def subdiff_dist(self, W, G):
        W = np.asarray(W, dtype=float)
        out = np.zeros(W.shape[0])
        for j in range(W.shape[0]):
            v = -np.asarray(G)[j]
            nw = np.linalg.norm(W[j])
            if nw == 0:
                r = self._slope0()
                out[j] = 0.0 if r == INF else max(0.0, np.linalg.norm(v) - r)
            else:
                out[j] = np.linalg.norm(v - self._dpen(nw) * W[j] / nw)
        return out

    def prox_row_candidates(self, x, step, j):
        nx = np.linalg.norm(x)
        if nx == 0:
            return [np.zeros_like(x)]
        rs = scalar_prox_numeric(self._pen, nx, step, dphi=self._dpen)
        return [r / nx * x for r in rs]

    def fixpoint_res(self, W, G, L):
        W = np.asarray(W, dtype=float)
        res = np.zeros(W.shape[0])
        for j in range(W.shape[0]):
            if L[j] == 0:
                d = float(self.subdiff_dist(W, np.zeros_like(W))[j])
                res[j] = min(float(np.linalg.norm(W[j])), d)        # see Penalty.zero_curv_res
                continue
            step = 1.0 / L[j]
            cands = self.prox_row_candidates(W[j] - step * np.asarray(G)[j], step, j)
            res[j] = min(np.linalg.norm(W[j] - c) for c in cands)
        return res


class L2_1(_Row):
    name = "L2_1"

    def __init__(self, alpha):
        self.alpha = float(alpha)

    def _pen(self, r):
        return self.alpha * abs(r)

    def _dpen(self, r):
        return self.alpha

    def _slope0(self):
        return self.alpha

    def prox_row_candidates(self, x, step, j):
        return [_bst(np.asarray(x, dtype=float), self.alpha * step)]


class L2_05(_Row):
    name = "L2_05"
    convex = False

    def __init__(self, alpha):
        self.alpha = float(alpha)

    def _pen(self, r):
        return self.alpha * np.sqrt(abs(r))

    def _dpen(self, r):
        return self.alpha / (2 * np.sqrt(r))

    def _slope0(self):
        return INF


class BlockMCP(_Row):
    name = "BlockMCPenalty"
    convex = False

    def __init__(self, alpha, gamma):
        self.alpha, self.gamma = float(alpha), float(gamma)

    def _pen(self, r):
        r = abs(r)
        if r <= self.alpha * self.gamma:
            return self.alpha * r - r * r / (2 * self.gamma)
        return self.gamma * self.alpha ** 2 / 2

    def _dpen(self, r):
        return max(self.alpha - r / self.gamma, 0.0)

    def _slope0(self):
        return self.alpha


class BlockSCAD(_Row):
    name = "BlockSCAD"
    convex = False

    def __init__(self, alpha, gamma):
        self.alpha, self.gamma = float(alpha), float(gamma)

    def _pen(self, r):
        return SCAD(self.alpha, self.gamma)._pen(r)

    def _dpen(self, r):
        a, g = self.alpha, self.gamma
        if r <= a:
            return a
        if r <= a * g:
            return (a * g - r) / (g - 1)
        return 0.0

    def _slope0(self):
        return self.alpha


def make_penalty(name, **kw):
    if name == "L1":
        return L1(kw["alpha"], kw.get("positive", False))
    if name == "WeightedL1":
        return WeightedL1(kw["alpha"], kw["weights"], kw.get("positive", False))
    if name == "L1_plus_L2":
        return L1_plus_L2(kw["alpha"], kw["l1_ratio"], kw.get("positive", False))
    if name == "MCPenalty":
        return MCP(kw["alpha"], kw["gamma"], kw.get("positive", False))
    if name == "WeightedMCPenalty":
        return MCP(kw["alpha"], kw["gamma"], kw.get("positive", False), kw["weights"])
    if name == "SCAD":
        return SCAD(kw["alpha"], kw["gamma"])
    if name == "IndicatorBox":
        return IndicatorBox(kw["alpha"])
    if name == "PositiveConstraint":
        return PositiveConstraint()
    if name == "L0_5":
        return PowerPenalty(kw["alpha"], 0.5, "L0_5")
    if name == "L2_3":
        return PowerPenalty(kw["alpha"], 2.0 / 3.0, "L2_3")
    if name == "LogSumPenalty":
        return LogSum(kw["alpha"], kw["eps"])
    if name == "L2":
        return L2(kw["alpha"])
    if name == "SLOPE":
        return SLOPE(kw["alphas"])
    if name == "WeightedGroupL2":
        return WeightedGroupL2(kw["alpha"], kw["weights"], kw["grp_ptr"], kw["grp_indices"],
                               kw.get("positive", False))
    if name == "WeightedL1GroupL2":
        return WeightedL1GroupL2(kw["alpha"], kw["weights_groups"], kw["weights_features"],
                                 kw["grp_ptr"], kw["grp_indices"])
    if name == "L2_1":
        return L2_1(kw["alpha"])
    if name == "L2_05":
        return L2_05(kw["alpha"])
    if name == "BlockMCPenalty":
        return BlockMCP(kw["alpha"], kw["gamma"])
    if name == "BlockSCAD":
        return BlockSCAD(kw["alpha"], kw["gamma"])
    raise KeyError(name)
