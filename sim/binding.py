"""Binding between plans (plain JSON-able dicts) and skglm objects.

A *family* is  dict(solver=..., datafit=..., dargs={...}, penalty=..., pargs={...}).
Datasets are  dict(X=[[...]], y=[...] or [[...]], kind=...).
"""
import numpy as np
import scipy.sparse as sp

# data kind every datafit needs
DATAFIT_KIND = {
    None: "reg", "Quadratic": "reg", "WeightedQuadratic": "reg", "Huber": "reg",
    "Logistic": "bin", "QuadraticSVC": "bin", "Poisson": "count", "Gamma": "pos",
    "Cox": "surv", "QuadraticGroup": "reg", "LogisticGroup": "bin",
    "QuadraticMultiTask": "multi", "SqrtQuadratic": "reg", "Pinball": "reg",
}
DATAFIT_STRUCT = {  # which penalty structure a datafit is meant for
    None: "sep", "Quadratic": "sep", "WeightedQuadratic": "sep", "Huber": "sep",
    "Logistic": "sep", "QuadraticSVC": "sep", "Poisson": "sep", "Gamma": "sep", "Cox": "sep",
    "QuadraticGroup": "group", "LogisticGroup": "group", "QuadraticMultiTask": "row",
    "SqrtQuadratic": "sep", "Pinball": "sep",
}
PENALTY_STRUCT = {
    "L1": "sep", "L1_plus_L2": "sep", "WeightedL1": "sep", "MCPenalty": "sep",
    "WeightedMCPenalty": "sep", "SCAD": "sep", "IndicatorBox": "sep", "L0_5": "sep",
    "L2_3": "sep", "LogSumPenalty": "sep", "PositiveConstraint": "sep", "L2": "sep",
    "SLOPE": "sep", "L2_1": "row", "L2_05": "row", "BlockMCPenalty": "row", "BlockSCAD": "row",
    "WeightedGroupL2": "group", "WeightedL1GroupL2": "group",
}
CONVEX_PENALTIES = {"L1", "L1_plus_L2", "WeightedL1", "IndicatorBox", "PositiveConstraint", "L2",
                    "SLOPE", "L2_1", "WeightedGroupL2", "WeightedL1GroupL2"}
SOLVERS = ["AndersonCD", "ProxNewton", "GroupBCD", "GroupProxNewton", "MultiTaskBCD", "GramCD",
           "FISTA", "LBFGS", "PDCD_WS"]
DATAFITS = [None, "Quadratic", "WeightedQuadratic", "Logistic", "QuadraticSVC", "Huber", "Poisson",
            "Gamma", "Cox", "QuadraticGroup", "LogisticGroup", "QuadraticMultiTask",
            "SqrtQuadratic", "Pinball"]
PENALTIES = list(PENALTY_STRUCT)

# solver knobs understood by each solver's constructor
SOLVER_KNOBS = {
    "AndersonCD": ("max_iter", "max_epochs", "p0", "tol", "ws_strategy", "fit_intercept"),
    "ProxNewton": ("max_iter", "max_pn_iter", "p0", "tol", "ws_strategy", "fit_intercept"),
    "GroupBCD": ("max_iter", "max_epochs", "p0", "tol", "ws_strategy", "fit_intercept"),
    "GroupProxNewton": ("max_iter", "max_pn_iter", "p0", "tol", "fit_intercept"),
    "MultiTaskBCD": ("max_iter", "max_epochs", "p0", "tol", "ws_strategy", "fit_intercept",
                     "use_acc"),
    "GramCD": ("max_iter", "tol", "use_acc", "greedy_cd", "fit_intercept"),
    "FISTA": ("max_iter", "tol", "opt_strategy"),
    "LBFGS": ("max_iter", "tol"),
    "PDCD_WS": ("max_iter", "max_epochs", "p0", "tol", "dual_init", "warm_start"),
}
INNER_BUDGET = {"AndersonCD": "max_epochs", "GroupBCD": "max_epochs", "MultiTaskBCD": "max_epochs",
                "ProxNewton": "max_pn_iter", "GroupProxNewton": "max_pn_iter",
                "PDCD_WS": "max_epochs"}
# criterion the returned stop_crit is expressed in
STRICT_TOL = {"FISTA"}          # stops on  stop_crit < tol
DESCENT_SOLVERS = {"AndersonCD", "GroupBCD", "MultiTaskBCD", "GramCD", "ProxNewton",
                   "GroupProxNewton"}
C01_SOLVERS = {"AndersonCD", "GroupBCD", "MultiTaskBCD", "GramCD", "ProxNewton",
               "GroupProxNewton", "LBFGS"}
RETURNS_CALLER_W = {"AndersonCD", "GroupBCD", "MultiTaskBCD", "ProxNewton", "GroupProxNewton",
                    "PDCD_WS", "GramCD"}
SUPPORTS_INTERCEPT = {"AndersonCD", "ProxNewton", "GroupBCD", "GroupProxNewton", "MultiTaskBCD"}


def skglm_classes():
    import skglm.datafits as D
    import skglm.penalties as P
    import skglm.solvers as S
    from skglm.experimental.sqrt_lasso import SqrtQuadratic
    from skglm.experimental.quantile_regression import Pinball
    from skglm.experimental.pdcd_ws import PDCD_WS
    dfs = {n: getattr(D, n) for n in DATAFITS if n and hasattr(D, n)}
    dfs["SqrtQuadratic"], dfs["Pinball"] = SqrtQuadratic, Pinball
    pens = {n: getattr(P, n) for n in PENALTIES if hasattr(P, n)}
    sols = {n: getattr(S, n) for n in SOLVERS if hasattr(S, n)}
    sols["PDCD_WS"] = PDCD_WS
    return dfs, pens, sols


def _arr(v, dtype=float):
    return np.array(v, dtype=dtype)


def build_datafit(name, dargs, compiled=True):
    if name is None:
        return None
    from skglm.utils.jit_compilation import compiled_clone
    dfs, _, _ = skglm_classes()
    kw = dict(dargs or {})
    if name == "WeightedQuadratic":
        kw["sample_weights"] = _arr(kw["sample_weights"])
    if name in ("QuadraticGroup", "LogisticGroup"):
        kw["grp_ptr"] = _arr(kw["grp_ptr"], np.int32)
        kw["grp_indices"] = _arr(kw["grp_indices"], np.int32)
    obj = dfs[name](**kw)
    return compiled_clone(obj) if compiled else obj


def build_penalty(name, pargs, compiled=True):
    from skglm.utils.jit_compilation import compiled_clone
    _, pens, _ = skglm_classes()
    kw = dict(pargs or {})
    for k in ("weights", "weights_groups", "weights_features", "alphas"):
        if k in kw:
            kw[k] = _arr(kw[k])
    for k in ("grp_ptr", "grp_indices"):
        if k in kw:
            kw[k] = _arr(kw[k], np.int32)
    obj = pens[name](**kw)
    return compiled_clone(obj) if compiled else obj


def build_solver(name, knobs):
    _, _, sols = skglm_classes()
    kw = {k: v for k, v in (knobs or {}).items() if k in SOLVER_KNOBS[name]}
    if name in ("FISTA", "LBFGS", "PDCD_WS"):
        kw.pop("fit_intercept", None)
    if kw.get("dual_init") is not None:
        kw["dual_init"] = np.array(kw["dual_init"], dtype=float)
    return sols[name](**kw)


def solver_fit_intercept(name, knobs):
    if name not in SUPPORTS_INTERCEPT:
        return False
    default = {"AndersonCD": True, "ProxNewton": True, "GroupBCD": False,
               "GroupProxNewton": False, "MultiTaskBCD": True}[name]
    return bool((knobs or {}).get("fit_intercept", default))


# ------------------------------------------------------------------ data containers

STORAGES_SOLVER = ["F", "C", "csc", "csc64", "csc_unsorted", "csc_zeros", "csc_dup"]


def make_container(Xd, storage):
    """Xd: dense float64 (n, p).  Returns the container of that storage kind."""
    if storage == "F":
        return np.asfortranarray(Xd)
    if storage == "C":
        return np.ascontiguousarray(Xd)
    if storage == "view":
        big = np.zeros((Xd.shape[0] * 2, Xd.shape[1] * 2), order="F")
        big[::2, ::2] = Xd
        return big[::2, ::2]
    if storage.startswith("csc"):
        M = sp.csc_matrix(Xd)
        if storage == "csc_zeros":
            # store some explicit zeros
            D = Xd.copy()
            mask = D == 0
            D[mask] = 1.0
            M = sp.csc_matrix(D)
            rows, cols = np.where(mask)
            for r, c in zip(rows, cols):
                M[r, c] = 0.0   # stays stored
            M = sp.csc_matrix((M.data, M.indices, M.indptr), shape=M.shape)
        if storage == "csc_unsorted":
            data, ind, ptr = M.data.copy(), M.indices.copy(), M.indptr
            for j in range(M.shape[1]):
                sl = slice(ptr[j], ptr[j + 1])
                data[sl] = data[sl][::-1]
                ind[sl] = ind[sl][::-1]
            M = sp.csc_matrix((data, ind, ptr), shape=M.shape)
            M.has_sorted_indices = False
        if storage == "csc_dup":
            # non-canonical format: some entries stored as two pieces at the same (row, column),
            # which scipy defines as their sum (0.75 v + 0.25 v is exact in binary arithmetic)
            data, ind, ptr = [], [], [0]
            k = 0
            for j in range(M.shape[1]):
                for t in range(M.indptr[j], M.indptr[j + 1]):
                    v, r = M.data[t], M.indices[t]
                    if k % 3 == 0:
                        data += [0.75 * v, 0.25 * v]
                        ind += [r, r]
                    else:
                        data.append(v)
                        ind.append(r)
                    k += 1
                ptr.append(len(data))
            M = sp.csc_matrix((np.array(data, dtype=float), np.array(ind, dtype=np.int32),
                               np.array(ptr, dtype=np.int32)), shape=M.shape)
        if storage == "csc64":
            M = sp.csc_matrix((M.data, M.indices.astype(np.int64), M.indptr.astype(np.int64)),
                              shape=M.shape)
        else:
            M = sp.csc_matrix((M.data, M.indices.astype(np.int32), M.indptr.astype(np.int32)),
                              shape=M.shape)
        return M
    if storage == "csr":
        return sp.csr_matrix(Xd)
    if storage == "list":
        return Xd.tolist()
    if storage == "f32":
        return np.asfortranarray(Xd.astype(np.float32))
    raise ValueError(storage)


def design_for_solver(X, y, datafit_name):
    """The matrix the solver is given: X itself, or (y X)^T for the SVC dual."""
    Xd = np.array(X, dtype=float)
    if datafit_name == "QuadraticSVC":
        return (Xd * np.asarray(y, dtype=float)[:, None]).T
    return Xd


def target_for_solver(y, datafit_name):
    y = np.array(y, dtype=float)
    if y.ndim == 2:
        return np.asfortranarray(y)
    return y


# ------------------------------------------------------------------ reference model side

RM_LOSS_NAME = {None: "Quadratic"}


def rm_problem(data, family, pargs=None, fit_intercept=False):
    from .refmodel.problem import make_problem
    dn = family["datafit"]
    dargs = dict(family.get("dargs") or {})
    dargs.pop("grp_ptr", None)
    dargs.pop("grp_indices", None)
    pa = dict(pargs if pargs is not None else family["pargs"])
    return make_problem(np.array(data["X"], dtype=float), np.array(data["y"], dtype=float),
                        RM_LOSS_NAME.get(dn, dn), dargs, family["penalty"], pa, fit_intercept)
