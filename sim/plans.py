"""Plan generators: (check id, VERIF_SEED, run index, engine) -> plan (a JSON-able dict).

Swarm style: every run draws its own composition, sizes, knobs, start point, budgets and the
subset of fault kinds that are enabled.
"""
import numpy as np

from . import binding as B
from . import gen as G
from .gen import choice


def _fix_knobs(k, fam):
    """Knob values a family cannot be run with are a refusal, not a schedule: avoid them."""
    if fam["penalty"] == "WeightedL1GroupL2" and "ws_strategy" in k:
        k["ws_strategy"] = "fixpoint"
    if fam["penalty"] == "SLOPE" and "opt_strategy" in k:
        k["opt_strategy"] = "fixpoint"
    return k


def _gscale(prob):
    a = prob["family"].get("alpha_max_rm") or 0.0
    return a if a > 0 else 1.0


def _T(prob):
    return prob["T"]


def _p(prob):
    Xs = prob["data"]["X"]
    n, p = len(Xs), len(Xs[0])
    if prob["family"]["datafit"] == "QuadraticSVC":
        return n            # the dual problem has one coefficient per sample
    return p


def _start(rng, prob, allow_cold=True):
    p, fi = _p(prob), prob["fi"]
    r = rng.random()
    if allow_cold and r < 0.45:
        return "cold", None
    if allow_cold and r < 0.6:
        return "cold_buf", None
    fam = prob["family"]
    X = np.asarray(prob["data"]["X"], dtype=float)
    n = X.shape[0]
    coln = np.sqrt((X ** 2).sum(axis=0)) / np.sqrt(n)       # rms of each column
    coln = np.where(coln > 0, coln, 1.0)
    yv = np.asarray(prob["data"]["y"], dtype=float)
    # per-feature scale: each coefficient moves the linear predictor by about ``amp``
    if fam["datafit"] in ("Poisson", "Gamma", "Cox", "Logistic", "LogisticGroup"):
        amp = choice(rng, [0.01, 0.1, 0.5])
    else:
        amp = float(np.abs(yv).mean() + 1e-3) * choice(rng, [0.01, 0.3, 1.0, 3.0])
    solver = fam["solver"]
    fi_eff = fi if solver in B.SUPPORTS_INTERCEPT else False
    w0 = np.array(G.gen_start_point(rng, p, fi_eff, _T(prob), 1.0))
    if fam["datafit"] == "QuadraticSVC":
        w0 = w0 * float(fam["pargs"].get("alpha", 1.0)) * 0.5
    else:
        shape = (p,) + (1,) * (w0.ndim - 1)
        w0[:p] = w0[:p] * (amp / coln).reshape(shape)
        if fi_eff:
            w0[p] = w0[p] * amp
    w0 = G.sig3(w0, 4)
    # start points must be feasible for constrained penalties (the property is about
    # user-supplied *coefficients*; an infeasible start has infinite objective)
    if fam["pargs"].get("positive") or fam["penalty"] in ("PositiveConstraint", "IndicatorBox"):
        w0[:p] = np.abs(w0[:p])
        if fam["penalty"] == "IndicatorBox":
            w0[:p] = np.minimum(w0[:p], fam["pargs"]["alpha"])
    return "point", w0.tolist()


def _mk(check, seed, run, engine, prob, ops, rng):
    for op in ops:
        if op.get("knobs") is not None:
            _fix_knobs(op["knobs"], prob["family"])
    rng_seed = int(rng.integers(1 << 31))
    storage = prob["storage"]
    # how a CSC matrix is *stored* is part of the storage dimension: 64-bit index arrays,
    # unsorted row indices, explicitly stored zeros (one variant per plan)
    variant = choice(rng, ["csc", "csc64", "csc_unsorted", "csc_zeros"], p=[.55, .15, .15, .15])
    if variant != "csc":
        for op in ops:
            if op.get("storage") == "csc":
                op["storage"] = variant
        if storage == "csc":
            storage = variant
    return dict(check=check, seed=int(seed), run=int(run), engine=engine,
                rng_seed=rng_seed, family=prob["family"], data=prob["data"],
                storage=storage, ops=ops)


_FORCED = {"entry": None}


def _pick_entry(rng, solvers=None, pred=None):
    cat = [e for e in G.CATALOG if (solvers is None or e[0] in solvers) and (pred is None or pred(e))]
    picked = choice(rng, cat)          # always draw, so that the stream does not shift
    if _FORCED["entry"] is not None:
        e = G.CATALOG[_FORCED["entry"] % len(G.CATALOG)]
        if e in cat:
            return e
        # forced entry not eligible for this check: deterministic fallback inside the eligible set
        return cat[_FORCED["entry"] % len(cat)]
    return picked


def plan_with_entry(check, seed, run, engine, entry, **kw):
    """Same generator, catalogue entry forced (compiled workers are sharded by composition
    so that JIT cost is amortised)."""
    _FORCED["entry"] = int(entry)
    try:
        plan = PLANNERS[check](seed, run, engine, **kw)
    finally:
        _FORCED["entry"] = None
    plan["forced_entry"] = int(entry)
    return plan


# ---------------------------------------------------------------------- C01

def plan_C01(seed, run, engine):
    rng = G.rng_for(seed, "C01", run)
    entry = _pick_entry(rng, B.C01_SOLVERS)
    degen = choice(rng, G.DEGEN_KINDS) if rng.random() < 0.15 else None
    edit = entry[0] in B.SUPPORTS_INTERCEPT and True in entry[4] and rng.random() < 0.1
    if edit:
        # (half of these at a strength that leaves no coefficient in the model, with slack: the edit
        # of the intercept then leaves every coefficient stationary whatever the column means are)
        prob = G.gen_problem(rng, entry, degen=degen, fi=True,
                             alpha_frac=choice(rng, [None, 1.3, 2.0], p=[.5, .25, .25]))
    else:
        prob = G.gen_problem(rng, entry, degen=degen)
    solver = entry[0]
    fi, p = prob["fi"], _p(prob)
    gs = _gscale(prob)
    ops = []
    mode = choice(rng, ["single", "crash_restart", "set_restart"], p=[.55, .3, .15])
    fault_rate = choice(rng, [0.0, 0.5, 1.0], p=[.4, .4, .2])
    if edit and fi:
        mode = "edit_restart"
    if mode == "edit_restart":
        # the user edits the intercept(s) of a converged solution and hands the pair back as a start
        # point: the coefficients are stationary, only the intercept term of the stopping value can
        # tell that the start point is not (per task for the multitask solver, any sign pattern)
        k1 = G.gen_knobs(rng, solver, p, fi, gs, ample=True)
        k1["fit_intercept"] = True
        ops.append(dict(op="solve", start="cold_buf", knobs=k1, faults={}, storage=prob["storage"]))
        if prob["family"]["datafit"] in ("Poisson", "Gamma", "Cox", "Logistic", "LogisticGroup"):
            amp = choice(rng, [0.01, 0.1, 0.5])
        else:
            ym = float(np.abs(np.asarray(prob["data"]["y"], dtype=float)).mean() + 1e-3)
            amp = ym * choice(rng, [0.01, 0.3, 1.0])
        signs = [float(choice(rng, [-1.0, -0.6, 0.0, 0.5, 1.0], p=[.3, .25, .2, .1, .15])) for _ in range(3)]
        if not any(signs):
            signs[0] = -1.0
        k2 = G.gen_knobs(rng, solver, p, fi, gs)
        k2["fit_intercept"] = True
        k2["max_iter"] = int(choice(rng, [1, 20, 100]))
        ops.append(dict(op="solve", start="buffers", bump=[float(G.sig3(amp * sg, 4)) for sg in signs],
                        knobs=k2, faults=G.gen_faults(rng, solver, fault_rate * 0.5), storage=prob["storage"]))
    elif mode == "single":
        st, w0 = _start(rng, prob)
        ops.append(dict(op="solve", start=st, w0=w0, knobs=G.gen_knobs(rng, solver, p, fi, gs),
                        faults=G.gen_faults(rng, solver, fault_rate), storage=prob["storage"]))
    elif mode == "crash_restart":
        st, w0 = _start(rng, prob)
        k1 = G.gen_knobs(rng, solver, p, fi, gs)
        k1["max_iter"] = int(choice(rng, [1, 2, 3]))
        inner = B.INNER_BUDGET.get(solver)
        if inner:
            k1[inner] = int(choice(rng, G.EPOCH_GRID))
        ops.append(dict(op="solve", start=st, w0=w0, knobs=k1,
                        faults=G.gen_faults(rng, solver, fault_rate), storage=prob["storage"]))
        k2 = G.gen_knobs(rng, solver, p, fi, gs)
        k2["fit_intercept"] = k1.get("fit_intercept", False)
        k2["max_iter"] = int(choice(rng, [20, 100]))
        if inner:
            k2[inner] = int(choice(rng, [200, 1000, 3000]))
        ops.append(dict(op="solve", start="buffers", knobs=k2,
                        faults=G.gen_faults(rng, solver, fault_rate * 0.5),
                        storage=prob["storage"]))
    else:
        k1 = G.gen_knobs(rng, solver, p, fi, gs, ample=True)
        ops.append(dict(op="solve", start="cold_buf", knobs=k1, faults={}, storage=prob["storage"]))
        if "alpha" in prob["family"]["pargs"]:
            a = prob["family"]["pargs"]["alpha"]
            ops.append(dict(op="set", params=dict(alpha=float(G.sig3(a * choice(rng, [0.3, 0.7, 1.5, 4.0]), 6))),
                            how=choice(rng, ["inplace", "new"])))
        k2 = G.gen_knobs(rng, solver, p, fi, gs)
        k2["fit_intercept"] = k1.get("fit_intercept", False)
        k2["max_iter"] = int(choice(rng, [20, 100]))
        ops.append(dict(op="solve", start="buffers", knobs=k2,
                        faults=G.gen_faults(rng, solver, fault_rate), storage=prob["storage"]))
    plan = _mk("C01", seed, run, engine, prob, ops, rng)
    # (round 3 stored a fifth of the CSC designs in non-canonical format - duplicate entries,
    # storage "csc_dup" - to reach a seeded change; withdrawn in round 6: the unchanged tree's
    # block solvers square the pieces of a split entry separately, so the format is outside what
    # the library supports and outside the storage list of the properties - DESIGN 8, item 29)
    rng.random()          # keeps the stream aligned with the plans of earlier evidence
    return plan


# ---------------------------------------------------------------------- crash-point grids

def _budgets(rng, solver, full=False):
    inner = B.INNER_BUDGET.get(solver)
    if not inner:
        ms = [0, 1, 2, 3, 4, 5, 6, 7, 8, 12, 13, 14, 20, 50] if solver != "LBFGS" else [0, 1, 2, 3, 5, 10]
        return [[m, 0] for m in ms]
    eg = G.EPOCH_GRID if inner == "max_epochs" else [1, 2, 3, 4, 5, 6, 8, 10, 15, 30]
    out = [[1, e] for e in eg]
    n_e = 4 if full else 2
    for e in sorted(set(int(choice(rng, eg)) for _ in range(n_e))):
        for m in G.ITER_GRID + [8]:
            if [m, e] not in out:
                out.append([m, e])
    return out


def _grid_plan(check, seed, run, engine, entry_pred, solvers, degen_rate=0.1, variant_pool=None,
               full=False):
    rng = G.rng_for(seed, check, run)
    entry = _pick_entry(rng, solvers, entry_pred)
    variant = None
    if variant_pool is not None:
        cands = [v for v in entry[2] if v in variant_pool]
        variant = choice(rng, cands)
    degen = choice(rng, G.DEGEN_KINDS) if rng.random() < degen_rate else None
    prob = G.gen_problem(rng, entry, variant=variant, degen=degen,
                         alpha_frac=choice(rng, [0.9, 0.5, 0.2, 0.1, 0.03, 0.01, 0.001]))
    solver = entry[0]
    fi, p = prob["fi"], _p(prob)
    knobs = G.gen_knobs(rng, solver, p, fi, _gscale(prob))
    # the grid supplies the budgets; make the tolerance small so that stopping points differ
    if rng.random() < 0.7:
        knobs["tol"] = float(G.sig3(_gscale(prob) * 10.0 ** (-int(rng.integers(6, 11))), 3))
    if solver == "FISTA" and check == "C17" and rng.random() < 0.5:
        # a tolerance loose enough to be met within the dense part of the budget grid: stopping
        # on the tolerance after k iterations is then itself a crash point the grid resolves
        knobs["tol"] = float(G.sig3(_gscale(prob) * choice(rng, [0.3, 0.1, 0.03]), 3))
    st, w0 = _start(rng, prob)
    fault_rate = choice(rng, [0.0, 0.6, 1.0], p=[.35, .4, .25])
    ops = [dict(op="grid", start=st, w0=w0, knobs=knobs, faults=G.gen_faults(rng, solver, fault_rate),
                storage=prob["storage"], budgets=_budgets(rng, solver, full))]
    return _mk(check, seed, run, engine, prob, ops, rng)


def plan_C03(seed, run, engine, full=False):
    return _grid_plan("C03", seed, run, engine, None, B.DESCENT_SOLVERS, full=full)


CONSTRAINED = set(G.POSITIVE_SEP) | {"Box", "G+"}


def plan_C04(seed, run, engine, full=False):
    plan = _grid_plan("C04", seed, run, engine,
                      lambda e: any(v in CONSTRAINED for v in e[2]), None,
                      variant_pool=CONSTRAINED, full=full)
    return _tightened_constraint_history(plan, seed, run)


def _tightened_constraint_history(plan, seed, run):
    """'... whatever the iteration budget, tolerance or warm start': a warm start that a
    *history* makes infeasible - a solve under a looser constraint (a larger box, no positivity),
    the constraint tightened the way set_params / path() / a user would (in place on the penalty
    object or through a new one), then every stopping point of the grid restarted from the
    surviving buffers.  Budgets that perform no iteration (max_iter = 0) return the caller's own
    point and are left out.  (round 3 of DESIGN section 9)"""
    rng = G.rng_for(seed, 1004, run)
    fam = plan["family"]
    pname, pargs = fam["penalty"], fam["pargs"]
    grid = plan["ops"][-1]
    if rng.random() >= 0.3 or pname == "PositiveConstraint" or fam["solver"] in ("LBFGS",):
        return plan
    k1 = dict(grid["knobs"])
    k1["max_iter"] = int(choice(rng, [1, 3, 50]))
    inner = B.INNER_BUDGET.get(fam["solver"])
    if inner:
        k1[inner] = int(choice(rng, [5, 50, 1000]))
    if fam["solver"] in ("FISTA", "GramCD"):
        k1["max_iter"] = int(choice(rng, [5, 50, 1000]))
    if fam["datafit"] in ("Logistic", "LogisticGroup", "Poisson", "Gamma", "Cox"):
        # on separable / unbounded likelihoods a long unconstrained solve at a small alpha runs
        # off to coefficients whose loss overflows exp() once their negative part is projected
        # away (Logistic.value is log(1 + exp(.)) evaluated directly): keep the first solve short
        k1["max_iter"] = 1
        if inner:
            k1[inner] = int(choice(rng, [5, 20]))
    how = choice(rng, ["inplace", "new"])
    if pname == "IndicatorBox":
        target = pargs["alpha"]
        pargs["alpha"] = float(G.sig3(target * choice(rng, [3.0, 10.0, 100.0]), 6))
        tighten = dict(alpha=target)
    elif pargs.get("positive"):
        pargs["positive"] = False
        tighten = dict(positive=True)
    else:
        return plan
    pre = dict(op="solve", start=grid.get("start", "cold"), w0=grid.get("w0"), knobs=k1, faults={},
               storage=grid.get("storage", plan.get("storage")))
    if pre["start"] == "cold":
        pre["start"] = "cold_buf"
    grid["start"], grid["w0"] = "buffers", None
    grid["budgets"] = [b for b in grid["budgets"] if b[0] >= 1]
    plan["ops"] = [pre, dict(op="set", params=tighten, how=how), grid]
    plan["tightened"] = True
    return plan


def plan_C17(seed, run, engine, full=False):
    return _grid_plan("C17", seed, run, engine, None, None, full=full)


# ---------------------------------------------------------------------- C05 histories

PATH_SOLVERS = {"AndersonCD", "MultiTaskBCD"}


def plan_C05(seed, run, engine):
    rng = G.rng_for(seed, "C05", run)
    entry = _pick_entry(rng, B.C01_SOLVERS | {"FISTA", "PDCD_WS"})
    prob = G.gen_problem(rng, entry, degen=choice(rng, G.DEGEN_KINDS) if rng.random() < 0.08 else None)
    solver = entry[0]
    fi, p = prob["fi"], _p(prob)
    gs = _gscale(prob)
    fam = prob["family"]
    has_alpha = "alpha" in fam["pargs"]
    amax = fam.get("alpha_max_rm") or 1.0
    n_ops = int(rng.integers(2, 7))
    ops = []
    fault_rate = choice(rng, [0.0, 0.4, 0.8], p=[.5, .3, .2])
    base_k = G.gen_knobs(rng, solver, p, fi, gs)
    storages = [s for s in entry[3]]

    def knobs(ample=False):
        k = G.gen_knobs(rng, solver, p, fi, gs, ample=ample)
        k["fit_intercept"] = base_k.get("fit_intercept", False)
        if rng.random() < 0.5:
            k["tol"] = base_k["tol"]
        return k
    for i in range(n_ops):
        r = rng.random()
        if solver in PATH_SOLVERS and has_alpha and r < 0.3 and fam["datafit"] != "QuadraticSVC":
            L = int(rng.integers(1, 7))
            fr = np.array([choice(rng, [2.0, 1.0001, 0.9, 0.5, 0.2, 0.1, 0.05, 0.01, 0.001]) for _ in range(L)])
            order = choice(rng, ["dec", "inc", "rand"])
            if order == "dec":
                fr = np.sort(fr)[::-1]
            elif order == "inc":
                fr = np.sort(fr)
            w0 = None
            if rng.random() < 0.4:
                _, w0 = _start(rng, prob, allow_cold=False)
            k = knobs(ample=rng.random() < 0.7)
            ops.append(dict(op="path", alphas=[float(G.sig3(amax * f, 6)) for f in fr], w0=w0,
                            knobs=k, faults=G.gen_faults(rng, solver, fault_rate),
                            storage=choice(rng, storages)))
        elif has_alpha and r < 0.5 and i > 0:
            params = dict(alpha=float(G.sig3(amax * choice(rng, [2.0, 1.0001, 0.9, 0.5, 0.1, 0.01]), 6)))
            if fam["penalty"] == "L1_plus_L2" and rng.random() < 0.3:
                params["l1_ratio"] = float(choice(rng, [0.2, 0.7, 1.0]))
            if "weights" in fam["pargs"] and fam["penalty"] in ("WeightedL1",) and rng.random() < 0.3:
                params["weights"] = G._weights(rng, len(fam["pargs"]["weights"]), rng.random() < 0.5)
            ops.append(dict(op="set", params=params, how=choice(rng, ["inplace", "new"])))
        else:
            if i == 0:
                st, w0 = _start(rng, prob)
            else:
                st, w0 = ("buffers", None) if rng.random() < 0.75 else _start(rng, prob, allow_cold=False)
            ops.append(dict(op="solve", start=st, w0=w0, knobs=knobs(ample=rng.random() < 0.4),
                            faults=G.gen_faults(rng, solver, fault_rate),
                            storage=choice(rng, storages) if rng.random() < 0.3 else prob["storage"]))
            if rng.random() < 0.2 and i < n_ops - 1 and st != "cold":
                # F-INTERRUPT: this solve is killed at its k-th working-set selection / kernel
                # call; the next operation restarts from whatever survived in the buffers
                ops[-1]["faults"] = dict(ops[-1]["faults"] or {},
                                         interrupt=int(choice(rng, [0, 1, 2, 3, 5, 8, 13, 21, 40])))
    if ops[-1]["op"] != "path":
        k = dict(tol=base_k["tol"], fit_intercept=base_k.get("fit_intercept", False))
        for kk in ("p0", "ws_strategy", "use_acc", "greedy_cd", "opt_strategy"):
            if kk in base_k:
                k[kk] = base_k[kk]
        ops.append(dict(op="quiesce", knobs=k, storage=prob["storage"]))
    return _mk("C05", seed, run, engine, prob, ops, rng)


# ---------------------------------------------------------------------- C16 critical strength

CRITICAL_VARIANTS = {"L1", "L1+", "WL1", "WL1z", "WL1+", "EN", "EN+", "MCP", "MCP+", "WMCP", "G", "Gz",
                     "G+", "L21", "BMCP"}


def plan_C16(seed, run, engine):
    rng = G.rng_for(seed, "C16", run)
    entry = _pick_entry(rng, B.C01_SOLVERS - {"LBFGS"} | {"FISTA"},
                        lambda e: any(v in CRITICAL_VARIANTS for v in e[2]))
    variant = choice(rng, [v for v in entry[2] if v in CRITICAL_VARIANTS])
    frac = choice(rng, [1.001, 1.01, 1.0, 1.1, 2.0, 10.0, 0.999, 0.99, 0.9],
                  p=[.15, .15, .1, .1, .1, .05, .15, .1, .1])
    prob = G.gen_problem(rng, entry, variant=variant, alpha_frac=frac)
    solver = entry[0]
    fi, p = prob["fi"], _p(prob)
    fam = prob["family"]
    centred = False
    if variant in ("MCP", "MCP+", "WMCP", "BMCP") and fam["datafit"] in ("Quadratic", "Logistic",
                                                                       "QuadraticMultiTask") \
            and rng.random() < 0.5:
        # the non-convex corner of C16: exactly centred columns (the gradient at the null model
        # then does not depend on the intercept, so a cold start can never legitimately leave
        # zero above the critical strength) and a gamma drawn without regard to the step range
        # gamma > weight_j / L_j - the property does not restrict gamma, and gamma = 3 with
        # L_j = 1/4 (logistic loss, standardised columns) is ordinary use
        Xc = np.asarray(prob["data"]["X"], dtype=float)
        Xc = Xc - Xc.mean(axis=0)
        Xc = Xc - Xc.mean(axis=0)
        prob["data"]["X"] = Xc.tolist()
        fam["pargs"]["gamma"] = float(choice(rng, [1.2, 2.0, 3.0, 10.0]))
        fam["alpha_max_rm"] = G.reference_alpha_max(fam, prob["data"], fi)
        centred = True
    amax = fam.get("alpha_max_rm") or 0.0
    if amax <= 0:
        amax = 1.0
    # the exact critical value is written unrounded
    fam["pargs"]["alpha"] = float(amax * frac) if frac != 1.0 else float(amax * (1 + 4e-9))
    gs = _gscale(prob)
    k = G.gen_knobs(rng, solver, p, fi, gs, ample=True)
    if rng.random() < 0.75 and "ws_strategy" in k:
        k["ws_strategy"] = "subdiff"
    gap = abs(amax - fam["pargs"]["alpha"])
    Xa = np.asarray(prob["data"]["X"], dtype=float)
    colmean = float(np.max(np.abs(Xa.mean(axis=0))))
    wts = np.asarray(fam["pargs"].get("weights", [1.0]), dtype=float)
    wmin = float(np.min(wts[wts > 0])) if np.any(wts > 0) else 1.0
    l1r = fam["pargs"].get("l1_ratio", 1.0) or 1.0
    # a tolerance the gap dominates by three orders of magnitude (see judge_critical)
    tol_cap = gap * wmin * l1r / (1 + colmean) * 1e-3 * 0.5
    k["tol"] = float(min(k["tol"], tol_cap)) if frac != 1.0 and tol_cap > 0 else k["tol"]
    if frac == 1.0:
        k["tol"] = float(G.sig3(gs * 10.0 ** (-int(rng.integers(3, 8))), 3))
    ops = []
    route = choice(rng, ["cold", "warm_small_alpha", "path_cross", "crash_restart"],
                   p=[.35, .3, .2, .15])
    if centred:
        route = "cold"
        if "ws_strategy" in k:
            k["ws_strategy"] = "subdiff"
    if route == "warm_small_alpha" or (route == "path_cross" and solver not in PATH_SOLVERS):
        small = dict(alpha=float(amax * choice(rng, [0.05, 0.3])))
        target = fam["pargs"]["alpha"]
        fam["pargs"]["alpha"] = small["alpha"]
        ops.append(dict(op="solve", start="cold_buf", knobs=dict(k), faults={}, storage=prob["storage"]))
        ops.append(dict(op="set", params=dict(alpha=target), how=choice(rng, ["inplace", "new"])))
        ops.append(dict(op="quiesce", knobs=dict(k), start="buffers", storage=prob["storage"],
                        critical=True, optimum=False, liveness=False))
    elif route == "path_cross":
        target = fam["pargs"]["alpha"]
        fr = [0.05, 0.5, target / amax] if rng.random() < 0.5 else [3.0, target / amax]
        ops.append(dict(op="path", alphas=[float(amax * f) for f in fr], w0=None, knobs=dict(k),
                        faults={}, storage=prob["storage"]))
        ops.append(dict(op="quiesce", knobs=dict(k), start="cold", storage=prob["storage"],
                        critical=True, optimum=False, liveness=False))
    elif route == "crash_restart":
        k1 = dict(k)
        k1["max_iter"] = 1
        inner = B.INNER_BUDGET.get(solver)
        if inner:
            k1[inner] = int(choice(rng, [1, 6, 7, 13]))
        st, w0 = _start(rng, prob, allow_cold=False)
        ops.append(dict(op="solve", start=st, w0=w0, knobs=k1, faults=G.gen_faults(rng, solver, 0.5),
                        storage=prob["storage"]))
        ops.append(dict(op="quiesce", knobs=dict(k), start="buffers", storage=prob["storage"],
                        critical=True, optimum=False, liveness=False))
    else:
        ops.append(dict(op="quiesce", knobs=dict(k), start="cold", storage=prob["storage"],
                        critical=True, optimum=False, liveness=False))
    return _mk("C16", seed, run, engine, prob, ops, rng)


# ---------------------------------------------------------------------- C02 reference optimum

CONVEX_VARIANTS = {"L1", "L1+", "WL1", "WL1z", "WL1+", "EN", "EN+", "Box", "Pos", "G", "Gz", "G+", "SG",
                   "L21", "L2", "SLOPE"}


def plan_C02(seed, run, engine):
    rng = G.rng_for(seed, "C02", run)
    entry = _pick_entry(rng, None, lambda e: any(v in CONVEX_VARIANTS for v in e[2]))
    variant = choice(rng, [v for v in entry[2] if v in CONVEX_VARIANTS])
    prob = G.gen_problem(rng, entry, variant=variant,
                         alpha_frac=choice(rng, [0.9, 0.5, 0.2, 0.1, 0.05, 0.01]))
    solver = entry[0]
    fi, p = prob["fi"], _p(prob)
    gs = _gscale(prob)
    k = G.gen_knobs(rng, solver, p, fi, gs, ample=True)
    k["tol"] = float(G.sig3(gs * 10.0 ** (-int(rng.integers(3, 8))), 3))
    ops = []
    hist = choice(rng, ["none", "crash", "faulty", "set"], p=[.4, .25, .2, .15])
    if hist == "crash":
        k1 = G.gen_knobs(rng, solver, p, fi, gs)
        k1["fit_intercept"] = k.get("fit_intercept", False)
        k1["max_iter"] = int(choice(rng, [1, 2]))
        st, w0 = _start(rng, prob)
        ops.append(dict(op="solve", start=st, w0=w0, knobs=k1, faults=G.gen_faults(rng, solver, 0.6),
                        storage=prob["storage"]))
    elif hist == "faulty":
        k1 = dict(k)
        k1["max_iter"] = int(choice(rng, [3, 10]))
        ops.append(dict(op="solve", start="cold_buf", knobs=k1, faults=G.gen_faults(rng, solver, 1.0),
                        storage=prob["storage"]))
    elif hist == "set" and "alpha" in prob["family"]["pargs"]:
        target = prob["family"]["pargs"]["alpha"]
        prob["family"]["pargs"]["alpha"] = float(G.sig3(target * choice(rng, [0.2, 3.0]), 6))
        ops.append(dict(op="solve", start="cold_buf", knobs=dict(k), faults={}, storage=prob["storage"]))
        ops.append(dict(op="set", params=dict(alpha=target), how=choice(rng, ["inplace", "new"])))
    ops.append(dict(op="quiesce", knobs=k, storage=prob["storage"]))
    return _mk("C02", seed, run, engine, prob, ops, rng)


PLANNERS = {"C01": plan_C01, "C03": plan_C03, "C04": plan_C04, "C17": plan_C17, "C05": plan_C05,
            "C16": plan_C16, "C02": plan_C02}
